//! ccsim — deterministic simulator with fault injection for rust-cc.
//!
//! Subcommands (see `usage`): batch | exec | replay | gen | sweep | minimise | hashes | selftest

mod alloc;
mod callbacks;
mod compat;
mod exec;
mod gen;
mod leaves;
mod minimise;
mod node;
mod nontrivial;
mod ops;
mod oracles;
mod program;
mod rng;
mod run;
mod scripts;
mod stats;
mod sweep;
mod threads;
mod world;

use std::io::Write;

use program::Program;
use run::{run_program, RunResult};
use stats::Stats;

#[global_allocator]
static GLOBAL: alloc::SimAlloc = alloc::SimAlloc;

fn usage() -> ! {
    eprintln!(
        "usage:
  ccsim batch    --profile P --prop Cxx --seed S --from A --to B [--hashes FILE] [--sweep N]
  ccsim exec     --profile P --prop Cxx --seed S --index I [-v]
  ccsim gen      --profile P --seed S --index I
  ccsim replay   FILE [--prop Cxx] [-v]
  ccsim minimise FILE --prop Cxx --oracle O-XXX [--out FILE]
  ccsim hashes   FILE...            (count distinct 64-bit hashes)
  ccsim info"
    );
    std::process::exit(2);
}

pub struct Args {
    pub pos: Vec<String>,
    pub kv: std::collections::BTreeMap<String, String>,
    pub flags: Vec<String>,
}

fn parse_args() -> Args {
    let mut a = Args { pos: vec![], kv: Default::default(), flags: vec![] };
    let v: Vec<String> = std::env::args().skip(1).collect();
    let mut i = 0;
    while i < v.len() {
        if let Some(k) = v[i].strip_prefix("--") {
            if i + 1 < v.len() && !v[i + 1].starts_with("--") {
                a.kv.insert(k.to_string(), v[i + 1].clone());
                i += 2;
            } else {
                a.flags.push(k.to_string());
                i += 1;
            }
        } else if v[i] == "-v" {
            a.flags.push("v".into());
            i += 1;
        } else {
            a.pos.push(v[i].clone());
            i += 1;
        }
    }
    a
}

impl Args {
    pub fn get(&self, k: &str) -> Option<&str> {
        self.kv.get(k).map(|s| s.as_str())
    }
    pub fn num(&self, k: &str, d: u64) -> u64 {
        self.get(k).map(|s| s.parse().unwrap_or_else(|_| usage())).unwrap_or(d)
    }
    pub fn has(&self, k: &str) -> bool {
        self.flags.iter().any(|f| f == k)
    }
}

pub fn leak_str(s: &str) -> &'static str {
    Box::leak(s.to_string().into_boxed_str())
}

pub static LAST_PANIC_GLOBAL: std::sync::Mutex<String> = std::sync::Mutex::new(String::new());

thread_local! {
    pub static LAST_PANIC: std::cell::RefCell<String> = const { std::cell::RefCell::new(String::new()) };
}

fn install_panic_hook() {
    std::panic::set_hook(Box::new(|info| {
        let loc = info.location().map(|l| format!("{}:{}", l.file(), l.line())).unwrap_or_default();
        if std::env::var_os("CCSIM_DEBUG").is_some() {
            eprintln!("panic at {}: {:?}", loc, info.payload().downcast_ref::<&str>().map(|s| s.to_string()).or(info.payload().downcast_ref::<String>().cloned()));
        }
        if let Ok(mut g) = LAST_PANIC_GLOBAL.try_lock() {
            *g = loc.clone();
        }
        let _ = LAST_PANIC.try_with(|l| {
            if let Ok(mut l) = l.try_borrow_mut() {
                *l = loc;
            }
        });
    }));
}

/// How many programs share one thread before it is retired (its thread-locals are then torn down for real).
/// `CCSIM_RUNS_PER_THREAD=1` gives every program a fresh thread.
pub fn runs_per_thread() -> u64 {
    static N: std::sync::OnceLock<u64> = std::sync::OnceLock::new();
    *N.get_or_init(|| std::env::var("CCSIM_RUNS_PER_THREAD").ok().and_then(|s| s.parse().ok()).unwrap_or(32).max(1))
}

/// Runs `f` on a new thread with a large stack and waits for it.
pub fn on_run_thread<R: Send + 'static>(f: impl FnOnce() -> R + Send + 'static) -> R {
    let h = std::thread::Builder::new().stack_size(16 << 20).spawn(f).expect("spawn");
    match h.join() {
        Ok(r) => r,
        Err(p) => {
            let loc = LAST_PANIC_GLOBAL.lock().map(|g| g.clone()).unwrap_or_default();
            if loc.starts_with("/repo/") || loc.contains("/rust-cc/") {
                println!("@@VIOLATION property=C07 oracle=O-CONTAIN.stray-panic op=? msg=the crate panicked outside any operation of the program (at {}): {}", loc, exec::panic_message(&p));
                use std::io::Write;
                let _ = std::io::stdout().flush();
                std::process::exit(3);
            }
            eprintln!("HARNESS-ERROR: the run thread panicked outside any operation (at {})", loc);
            std::process::exit(2);
        }
    }
}

/// Wall-clock watchdog: a run that does not finish within the limit is reported as non-termination (C06) and the
/// process exits; the clock never feeds back into a run.
pub static RUN_STARTED_MS: std::sync::atomic::AtomicU64 = std::sync::atomic::AtomicU64::new(0);
pub static RUN_LABEL: std::sync::atomic::AtomicU64 = std::sync::atomic::AtomicU64::new(0);

/// A non-zero stamp that is different for every run of this process (a counter: never a clock reading).
pub fn next_run_stamp() -> u64 {
    static SEQ: std::sync::atomic::AtomicU64 = std::sync::atomic::AtomicU64::new(0);
    SEQ.fetch_add(1, std::sync::atomic::Ordering::Relaxed) + 1
}

/// CPU time consumed by this process so far, in ms (utime + stime from /proc/self/stat; 0 if unavailable).
fn cpu_ms() -> u64 {
    let Ok(s) = std::fs::read_to_string("/proc/self/stat") else { return 0 };
    let Some(rest) = s.rsplit(')').next() else { return 0 };
    let f: Vec<&str> = rest.split_whitespace().collect();
    // after the command name: state is f[0], utime is field 14 overall => f[11], stime => f[12]
    let ut: u64 = f.get(11).and_then(|x| x.parse().ok()).unwrap_or(0);
    let st: u64 = f.get(12).and_then(|x| x.parse().ok()).unwrap_or(0);
    (ut + st) * 10
}

pub fn start_watchdog() {
    // The limit is on CPU time consumed during the run (a starved machine must not look like a hang);
    // wall-clock time is only a distant backstop for runs that block without consuming CPU.
    let limit_ms: u64 = std::env::var("CCSIM_RUN_TIMEOUT_MS").ok().and_then(|s| s.parse().ok()).unwrap_or(20_000);
    std::thread::Builder::new()
        .name("watchdog".into())
        .spawn(move || {
            // Both measurements start when the watchdog first sees a run (identified by a per-run counter value) and use
            // the process's CPU time and the monotonic clock: a step of the wall clock (a restored or re-synchronised
            // virtual machine) must not look like a hang.
            let mut seen_start = 0u64;
            let mut cpu_at_start = 0u64;
            let mut mono_at_start = std::time::Instant::now();
            loop {
            std::thread::sleep(std::time::Duration::from_millis(500));
            let st = RUN_STARTED_MS.load(std::sync::atomic::Ordering::Relaxed);
            let cpu_now = cpu_ms();
            if st != seen_start || cpu_now == 0 || cpu_at_start == 0 {
                seen_start = st;
                cpu_at_start = cpu_now;
                mono_at_start = std::time::Instant::now();
            }
            if st != 0 && cpu_now != 0 && cpu_at_start != 0 && (cpu_now.saturating_sub(cpu_at_start) > limit_ms || mono_at_start.elapsed().as_millis() as u64 > limit_ms * 60) {
                println!("@@VIOLATION property=C06 oracle=O-TERM.hang op=? msg=a single run did not finish within {} ms of CPU time (non-termination or livelock)", limit_ms);
                use std::io::Write;
                let _ = std::io::stdout().flush();
                std::process::exit(3);
            }
            }
        })
        .expect("watchdog");
}

/// Runs one program on the current (run) thread: clean collector state, allocator quarantine window around it.
pub fn run_isolated(prog: &Program, prop: &'static str, verbose: bool) -> RunResult {
    if !prog.threads.is_empty() {
        return threads::run_threads(prog, prop, verbose);
    }
    // every run starts from the initial collector state of a fresh thread
    RUN_STARTED_MS.store(next_run_stamp(), std::sync::atomic::Ordering::Relaxed);
    rust_cc::verif::reset_thread_state();
    alloc::begin_run();
    let mut res = run_program(prog, prop, verbose);
    alloc::end_run();
    RUN_STARTED_MS.store(0, std::sync::atomic::Ordering::Relaxed);
    if let Some(v) = alloc::take_violation() {
        if res.violation.is_none() {
            let property = if prop == "C03" || prop == "C07" { prop } else { "C01" };
            let viol = world::Violation { property, oracle: if v.kind == alloc::V_WRITE_AFTER_FREE { "O-MEM.write-after-free" } else { "O-ALLOC.ledger" }, msg: v.describe(), op_index: 0, frames: String::new() };
            println!("@@VIOLATION property={} oracle={} op=end msg={}", viol.property, viol.oracle, viol.msg);
            res.violation = Some(viol);
        }
    }
    res
}

pub fn json_escape(s: &str) -> String {
    let mut o = String::with_capacity(s.len() + 8);
    for c in s.chars() {
        match c {
            '"' => o.push_str("\\\""),
            '\\' => o.push_str("\\\\"),
            '\n' => o.push_str("\\n"),
            '\t' => o.push_str("\\t"),
            c if (c as u32) < 0x20 => o.push_str(&format!("\\u{:04x}", c as u32)),
            c => o.push(c),
        }
    }
    o
}

fn cmd_batch(a: &Args) {
    let profile = a.get("profile").unwrap_or_else(|| usage()).to_string();
    let prop = leak_str(a.get("prop").unwrap_or("C01"));
    let seed = a.num("seed", 1);
    let from = a.num("from", 0);
    let to = a.num("to", 100);
    let sweep_points = a.num("sweep", 0);
    let scale = a.num("scale", 1).max(1);
    let mut total = Stats::default();
    let mut hashes: Vec<u64> = Vec::new();
    let mut all_hashes: Vec<u64> = Vec::new();
    let mut samples: Vec<String> = Vec::new();
    let per = runs_per_thread();
    let mut lo = from;
    while lo < to {
        let hi = (lo + per).min(to);
        let profile2 = profile.clone();
        let (t, h, ah, smp) = on_run_thread(move || {
            let mut total = Stats::default();
            let mut hashes: Vec<u64> = Vec::new();
            let mut all_hashes: Vec<u64> = Vec::new();
            let mut samples: Vec<String> = Vec::new();
            let out = std::io::stdout();
            for idx in lo..hi {
                {
                    let mut o = out.lock();
                    let _ = writeln!(o, "@@START {}", idx);
                    let _ = o.flush();
                }
                let prog = gen::generate_scaled(&profile2, seed, idx, scale);
                if sweep_points > 0 {
                    let viol = sweep::sweep_program(&prog, prop, sweep_points as usize, &mut total, &mut hashes, &mut samples);
                    if viol {
                        std::process::exit(3);
                    }
                    continue;
                }
                let res = run_isolated(&prog, prop, false);
                if res.violation.is_some() {
                    std::process::exit(3);
                }
                all_hashes.push(res.hash);
                if res.stats.nontrivial.contains_key(prop) {
                    hashes.push(res.hash);
                    if samples.len() < 3 {
                        samples.push(prog.to_text());
                    }
                }
                total.merge(&res.stats);
            }
            (total, hashes, all_hashes, samples)
        });
        total.merge(&t);
        hashes.extend(h);
        all_hashes.extend(ah);
        for x in smp {
            if samples.len() < 3 {
                samples.push(x);
            }
        }
        lo = hi;
    }
    if let Some(f) = a.get("hashes") {
        let mut bytes = Vec::with_capacity(hashes.len() * 8);
        for h in &hashes {
            bytes.extend_from_slice(&h.to_le_bytes());
        }
        std::fs::write(f, bytes).expect("write hashes");
    }
    if let Some(f) = a.get("allhashes") {
        let mut bytes = Vec::with_capacity(all_hashes.len() * 8);
        for h in &all_hashes {
            bytes.extend_from_slice(&h.to_le_bytes());
        }
        std::fs::write(f, bytes).expect("write all hashes");
    }
    let samples_json = samples.iter().map(|s| format!("\"{}\"", json_escape(s))).collect::<Vec<_>>().join(",");
    println!("@@DONE {{\"config\":\"{}\",\"stats\":{},\"samples\":[{}]}}", compat::config_name(), total.to_json(), samples_json);
}

fn report(res: &RunResult, verbose: bool) -> i32 {
    if verbose {
        if let Some(log) = &res.log {
            for l in log {
                println!("  {}", l);
            }
        }
        println!("hash {:016x} faults_fired {} stats {}", res.hash, res.faults_fired, res.stats.to_json());
    }
    match &res.violation {
        Some(v) => {
            println!("RESULT violation property={} oracle={} op={} frames={} msg={}", v.property, v.oracle, v.op_index, v.frames, v.msg);
            3
        }
        None => {
            println!("RESULT ok hash={:016x}", res.hash);
            0
        }
    }
}

fn main() {
    install_panic_hook();
    start_watchdog();
    let a = parse_args();
    if a.pos.is_empty() {
        usage();
    }
    match a.pos[0].as_str() {
        "batch" => cmd_batch(&a),
        "exec" => {
            let profile = a.get("profile").unwrap_or_else(|| usage());
            let prop = leak_str(a.get("prop").unwrap_or("C01"));
            let prog = gen::generate_scaled(profile, a.num("seed", 1), a.num("index", 0), a.num("scale", 1).max(1));
            if a.has("print") {
                print!("{}", prog.to_text());
            }
            let v = a.has("v");
            let res = on_run_thread(move || run_isolated(&prog, prop, v));
            std::process::exit(report(&res, a.has("v")));
        }
        "gen" => {
            let profile = a.get("profile").unwrap_or_else(|| usage());
            print!("{}", gen::generate_scaled(profile, a.num("seed", 1), a.num("index", 0), a.num("scale", 1).max(1)).to_text());
        }
        "replay" => {
            let file = a.pos.get(1).unwrap_or_else(|| usage());
            let text = std::fs::read_to_string(file).unwrap_or_else(|e| {
                eprintln!("HARNESS-ERROR: cannot read {}: {}", file, e);
                std::process::exit(2)
            });
            let prog = Program::parse(&text).unwrap_or_else(|e| {
                eprintln!("HARNESS-ERROR: {}", e);
                std::process::exit(2)
            });
            let prop = leak_str(a.get("prop").or(prog.expect.as_ref().map(|e| e.0.as_str())).unwrap_or("C01"));
            let v = a.has("v");
            let p2 = prog.clone();
            let res = on_run_thread(move || run_isolated(&p2, prop, v));
            let code = report(&res, a.has("v"));
            if let (Some((ep, eo)), Some(v)) = (&prog.expect, &res.violation) {
                println!("EXPECTED property={} oracle={} -> {}", ep, eo, if v.oracle.starts_with(eo.as_str()) || eo.starts_with(v.oracle) { "same oracle" } else { "different oracle" });
            }
            std::process::exit(code);
        }
        "minimise" => minimise::cmd_minimise(&a),
        "hashes" => {
            let mut all: Vec<u64> = Vec::new();
            for f in &a.pos[1..] {
                if let Ok(b) = std::fs::read(f) {
                    for c in b.chunks_exact(8) {
                        all.push(u64::from_le_bytes(c.try_into().unwrap()));
                    }
                }
            }
            let n = all.len();
            all.sort_unstable();
            all.dedup();
            println!("{} {}", n, all.len());
        }
        "info" => {
            println!("config {}", compat::config_name());
            println!("store_kinds {}", node::STORE_KINDS.len());
            println!("layouts {}", leaves::N_LAYOUTS);
        }
        _ => usage(),
    }
}
