//! After-operation oracles: the full observation of everything the program can reach, ledger
//! cross-checks, counters, buffer walk, quiescent completeness.

use std::collections::BTreeSet;

use crate::alloc::{self, BlockState};
use crate::compat::{self, *};
use crate::exec::*;
use crate::leaves::*;
use crate::node::*;
use crate::world::*;
use crate::{with_cc, with_weak};

impl World {
    /// Resolves the objects buffered during the collector's last pass (exact buffer model, C11).
    pub fn buf_model_collection_end(&self) {
        let mut m = self.m.borrow_mut();
        let pend = std::mem::take(&mut m.buf_pending);
        let dropped = std::mem::take(&mut m.dropped_this_pass);
        for t in pend {
            if m.objs[t as usize].status == Status::Live && !dropped.contains(&t) && World::count(&m, t) > 0 {
                m.buf_model.insert(t);
                m.objs[t as usize].was_buffered = true;
            }
        }
    }

    /// Everything checked after each top-level operation.
    pub fn after_op(&self, unwound: bool) {
        if self.dead.get() {
            return;
        }
        self.sync();
        if self.dead.get() {
            return;
        }
        // collector idle
        match rust_cc::state::is_tracing() {
            Ok(false) => {}
            other => {
                self.fail(if unwound { "O-CONTAIN.idle" } else { "O-PHASE.top" }, format!("is_tracing() is {:?} at top level", other));
                return;
            }
        }
        if let Some((c, f, d, dl)) = rust_cc::verif::flags() {
            if c || f || d || dl {
                self.fail(if unwound { "O-CONTAIN.flags" } else { "O-PHASE.flags" }, format!("the collector is not idle at top level: flags (collecting, finalizing, dropping, dropping a list) = ({}, {}, {}, {})", c, f, d, dl));
                return;
            }
        }
        if !unwound {
            self.buf_model_pending_outside();
        }
        self.check_ledger(unwound);
        if self.dead.get() {
            return;
        }
        self.observe_all();
        if self.dead.get() {
            return;
        }
        self.check_weak_handles();
        if self.dead.get() {
            return;
        }
        self.check_counters(unwound);
        if self.dead.get() {
            return;
        }
        self.check_buffer();
        if self.dead.get() {
            return;
        }
        if !unwound {
            self.check_refused();
            self.check_lingering();
            self.check_cleaners();
        } else {
            self.m.borrow_mut().refused.clear();
        }
    }

    /// Drops made by plain (non-collector) destruction chains buffer their survivors.
    fn buf_model_pending_outside(&self) {
        let mut m = self.m.borrow_mut();
        let pend = std::mem::take(&mut m.buf_pending);
        m.dropped_this_pass.clear();
        for t in pend {
            if m.objs[t as usize].status == Status::Live && World::count(&m, t) > 0 {
                m.buf_model.insert(t);
                m.objs[t as usize].was_buffered = true;
            }
        }
    }

    fn check_ledger(&self, unwound: bool) {
        let mut failure: Option<(&'static str, String)> = None;
        {
            let m = self.m.borrow();
            for (i, ob) in m.objs.iter().enumerate() {
                if ob.box_addr == 0 {
                    continue;
                }
                let st = alloc::block(ob.box_addr).state;
                match ob.status {
                    Status::Live | Status::UnderConstruction => {
                        if st != BlockState::Live {
                            failure = Some(("O-MEM.freed-alive", format!("the allocation of object {} was released although its value was never dropped or moved out", i)));
                            break;
                        }
                    }
                    Status::Gone if st == BlockState::Live => {
                        // a new_cyclic whose closure panicked: "all memory is released" (C14), injected panic or not
                        failure = Some(("O-CYCLIC.leak", format!("object {} was never constructed (its new_cyclic closure panicked) but its allocation was not released", i)));
                        break;
                    }
                    Status::Dropped | Status::Unwrapped | Status::Gone => {
                        if st == BlockState::Live && !ob.tainted && !unwound {
                            let o = if ob.status == Status::Gone { "O-CYCLIC.leak" } else { "O-FREED.box" };
                            failure = Some((o, format!("object {} is {:?} but its allocation was not released by the end of the operation", i, ob.status)));
                            break;
                        }
                        if st == BlockState::Freed && ob.box_size <= 512 && !alloc::poison_intact(ob.box_addr) {
                            failure = Some(("O-MEM.write-after-free", format!("the released allocation of object {} was written to", i)));
                            break;
                        }
                    }
                    _ => {}
                }
                // side record: must exist as long as the box or any Weak exists; released exactly then
                if ob.side_addr != 0 {
                    let weak_n = World::weak_count_model(&m, i as ObjId) + if ob.kind == ObjKind::Map { m.cl_action.iter().flatten().filter(|a| m.actions[**a as usize].map == i as ObjId).count() as u32 + ob.bulk_cleanables } else { 0 };
                    let box_gone = st != BlockState::Live;
                    let should_be_free = box_gone && weak_n == 0;
                    let sst = alloc::block(ob.side_addr).state;
                    if sst == BlockState::Live {
                        let mut st = self.stats.borrow_mut();
                        if box_gone {
                            st.bump("side_record_outlived_box");
                        } else if weak_n == 0 {
                            st.bump("box_outlived_last_weak");
                        }
                        if weak_n >= 2 {
                            st.bump("weak_handles_peak_ge2");
                        }
                    }
                    if !should_be_free && sst != BlockState::Live {
                        failure = Some(("O-SIDE.early", format!("the weak side record of object {} was released although {} Weak pointer(s) exist / the allocation is alive", i, weak_n)));
                        break;
                    }
                    if should_be_free && sst == BlockState::Live && ob.status == Status::Gone {
                        failure = Some(("O-CYCLIC.side-leak", format!("the weak side record of object {} (whose new_cyclic closure panicked, no Weak clone kept) was not released", i)));
                        break;
                    }
                    if should_be_free && sst == BlockState::Live && !ob.tainted && !unwound {
                        failure = Some(("O-SIDE.leak", format!("the weak side record of object {} was not released although the allocation and every Weak are gone", i)));
                        break;
                    }
                }
            }
        }
        if let Some((o, msg)) = failure {
            self.fail(o, msg);
        }
    }

    /// Walks everything reachable through real pointers and compares it with the mirror.
    pub fn observe_all(&self) {
        let n = self.m.borrow().objs.len();
        let mut seen = vec![false; n];
        let mut queue: Vec<(*const AnyCc, ObjId)> = Vec::new();
        {
            let t = self.t.borrow();
            let m = self.m.borrow();
            for (i, r) in t.roots.iter().enumerate() {
                if let Some(b) = r {
                    queue.push((&**b as *const AnyCc, m.root_obj[i].expect("root obj")));
                }
            }
            for (o, v) in t.bulk_strong.iter() {
                if let Some(c) = v.first() {
                    queue.push((c as *const AnyCc, *o));
                }
            }
        }
        // values moved out by try_unwrap are program-held: their fields are roots
        let bag_nodes: Vec<(*const Node, ObjId)> = {
            let t = self.t.borrow();
            let m = self.m.borrow();
            t.bag.iter().enumerate().filter_map(|(i, v)| match v {
                Some(AnyVal::N(n)) => Some((n as *const Node, m.bag_obj[i].unwrap())),
                _ => None,
            }).collect()
        };
        for (np, o) in bag_nodes {
            let node = unsafe { &*np };
            if !node.canary_ok() || node.head.id != o {
                self.fail("O-UNWRAP.value", format!("the value of object {} moved out by try_unwrap is no longer intact", o));
                return;
            }
            if !self.push_children(node, o, &mut queue) {
                return;
            }
        }
        while let Some((p, o)) = queue.pop() {
            if seen[o as usize] {
                continue;
            }
            seen[o as usize] = true;
            let cc = unsafe { &*p };
            if !self.check_value(cc, o, "reached from program-held pointers") {
                return;
            }
            if !self.check_object(cc, o) {
                return;
            }
            if let AnyCc::N(c) = cc {
                let node: &Node = c;
                if !self.push_children(node, o, &mut queue) {
                    return;
                }
            }
        }
        // every object the mirror calls reachable must be alive
        let m = self.m.borrow();
        let r = World::reach(&m);
        for (i, ob) in m.objs.iter().enumerate() {
            if r[i] && matches!(ob.status, Status::Destroying | Status::Dropped | Status::Gone) && ob.kind != ObjKind::Map && !(ob.status == Status::Gone && ob.box_addr == 0) {
                let msg = format!("object {} is reachable from program-held pointers but its value is {:?}", i, ob.status);
                drop(m);
                self.fail("O-REACH.state", msg);
                return;
            }
        }
    }

    fn push_children(&self, node: &Node, o: ObjId, queue: &mut Vec<(*const AnyCc, ObjId)>) -> bool {
        let store = unsafe { &*node.store.as_ptr() };
        let mut edges = Vec::new();
        store.walk(&mut edges);
        let m = self.m.borrow();
        for (s, e) in edges.iter().enumerate() {
            let key = KEY_SLOT | s as u32;
            match (e.get(), m.objs[o as usize].edges.get(&key)) {
                (None, None) => {}
                (Some(cc), Some(t)) => queue.push((cc as *const AnyCc, *t)),
                (a, b) => harness_error(format!("slot {} of object {}: real {} vs mirror {:?}", s, o, a.is_some(), b)),
            }
        }
        for e in unsafe { &*node.bulk.as_ptr() }.iter().take(4) {
            if let (Some(cc), Some(t)) = (e.get(), m.objs[o as usize].edges.get(&e.key)) {
                queue.push((cc as *const AnyCc, *t));
            }
        }
        for e in unsafe { &*node.pins.0.as_ptr() }.iter() {
            match (e.get(), m.objs[o as usize].edges.get(&e.key)) {
                (Some(cc), Some(t)) => queue.push((cc as *const AnyCc, *t)),
                (a, b) => harness_error(format!("pin {:#x} of object {}: real {} vs mirror {:?}", e.key, o, a.is_some(), b)),
            }
        }
        true
    }

    /// Per-object API observations through one real handle.
    fn check_object(&self, cc: &AnyCc, o: ObjId) -> bool {
        let (want, slack, tainted, fin_flag, wwant) = {
            let m = self.m.borrow();
            let ob = &m.objs[o as usize];
            (World::count(&m, o), ob.slack_strong, ob.tainted, ob.fin_flag, World::weak_count_model(&m, o))
        };
        let got = strong_count_of(cc);
        let base = want - slack;
        if (tainted && got < base) || (!tainted && got != want) {
            self.fail("O-COUNT.strong", format!("strong_count() of object {} is {} but {} Cc pointers to it exist", o, got, base));
            return false;
        }
        if tainted && got != want {
            // too high after a caught panic is the permitted leak; later limit arithmetic has to start from the real count
            self.m.borrow_mut().objs[o as usize].slack_strong = got - base;
        }
        if HAS_WEAK {
            let wgot = with_cc!(cc, c => compat::cc_weak_count(c));
            if wgot != wwant {
                self.fail("O-WCOUNT.cc", format!("Cc::weak_count() of object {} is {} but {} Weak pointers to it exist", o, wgot, wwant));
                return false;
            }
        }
        if HAS_FIN {
            let f = with_cc!(cc, c => compat::already_finalized(c));
            if f != fin_flag {
                self.fail("O-FIN.flag", format!("already_finalized() of object {} is {} but the object {}", o, f, if fin_flag { "was finalized (or created in a finalizer) and not re-armed" } else { "was never finalized (or was re-armed)" }));
                return false;
            }
        }
        let mut m = self.m.borrow_mut();
        m.objs[o as usize].addr_samples += 1;
        if m.objs[o as usize].downgraded_seen && m.objs[o as usize].processed_by_collection {
            self.stats.borrow_mut().bump("address_sampled_across_downgrade_and_collection");
        }
        true
    }

    fn check_weak_handles(&self) {
        if !HAS_WEAK {
            return;
        }
        let list: Vec<(*const AnyWeak, Option<ObjId>)> = {
            let t = self.t.borrow();
            let m = self.m.borrow();
            let mut v: Vec<(*const AnyWeak, Option<ObjId>)> = t.weaks.iter().enumerate().filter_map(|(i, w)| w.as_ref().map(|b| (&**b as *const AnyWeak, m.weak_obj[i].unwrap()))).collect();
            for (o, ws) in t.bulk_weak.iter() {
                if let Some(w) = ws.first() {
                    v.push((w as *const AnyWeak, Some(*o)));
                }
            }
            v
        };
        for (p, target) in list {
            let w = unsafe { &*p };
            let (sc, wc) = with_weak!(w, x => (x.strong_count(), x.weak_count()));
            match target {
                None => {
                    if sc != 0 || wc != 0 {
                        self.fail("O-WCOUNT.new", format!("a Weak::new() pointer reports strong_count {} weak_count {}", sc, wc));
                        return;
                    }
                }
                Some(o) => {
                    let (want_s, want_w, tainted, st) = {
                        let m = self.m.borrow();
                        let ob = &m.objs[o as usize];
                        let s = if ob.status == Status::Live { World::count(&m, o) } else { 0 };
                        (s, World::weak_count_model(&m, o), ob.tainted, ob.status)
                    };
                    if wc != want_w {
                        self.fail("O-WCOUNT.weak", format!("Weak::weak_count() for object {} ({:?}) is {} but {} Weak pointers exist", o, st, wc, want_w));
                        return;
                    }
                    let bad = if tainted { st != Status::Live && sc != 0 } else { sc != want_s };
                    if bad {
                        self.fail("O-WCOUNT.strong", format!("Weak::strong_count() for object {} ({:?}) is {} but {} is expected", o, st, sc, want_s));
                        return;
                    }
                }
            }
        }
    }

    fn check_counters(&self, _unwound: bool) {
        // bytes: sum of the sizes of the managed allocations that exist
        let want: usize = {
            let m = self.m.borrow();
            m.objs.iter().filter(|o| o.box_addr != 0 && alloc::block(o.box_addr).state == BlockState::Live).map(|o| o.box_size).sum::<usize>()
                + m.unclaimed_boxes.iter().filter(|b| alloc::block(b.0).state == BlockState::Live).map(|b| b.1).sum::<usize>()
        };
        match rust_cc::state::allocated_bytes() {
            Ok(got) if got != want => {
                self.fail("O-BYTES.sum", format!("allocated_bytes() is {} but the managed allocations that exist total {} bytes", got, want));
                return;
            }
            _ => {}
        }
        self.check_exec("O-EXEC.count", "the operation");
    }

    fn check_buffer(&self) {
        let Some(walk) = rust_cc::verif::buffer_walk(100_000) else { return };
        let count = rust_cc::state::buffered_objects_count().unwrap_or(usize::MAX);
        if count != walk.cached_size || walk.members.len() != walk.cached_size || !walk.links_ok {
            self.fail("O-BUF.size", format!("buffered_objects_count() = {}, cached size = {}, list walk finds {} members, links consistent: {}", count, walk.cached_size, walk.members.len(), walk.links_ok));
            return;
        }
        let mut set = BTreeSet::new();
        {
            let m = self.m.borrow();
            for mem in &walk.members {
                let Some(&o) = m.by_box.get(&mem.box_addr) else {
                    drop(m);
                    self.fail("O-BUF.member", format!("the buffer holds {:#x}, which is not a live managed allocation", mem.box_addr));
                    return;
                };
                let ob = &m.objs[o as usize];
                if alloc::block(mem.box_addr).state != BlockState::Live || (ob.status != Status::Live && !ob.tainted) {
                    let msg = format!("the buffer holds object {} whose value is {:?}", o, ob.status);
                    drop(m);
                    self.fail("O-BUF.member", msg);
                    return;
                }
                if mem.mark != 1 {
                    let msg = format!("buffered object {} carries mark {} instead of the in-buffer mark", o, mem.mark);
                    drop(m);
                    self.fail("O-BUF.mark", msg);
                    return;
                }
                if !set.insert(o) {
                    let msg = format!("object {} is buffered twice", o);
                    drop(m);
                    self.fail("O-BUF.distinct", msg);
                    return;
                }
            }
        }
        {
            let mut m = self.m.borrow_mut();
            if set.len() >= 2 {
                self.stats.borrow_mut().bump("buffer_ge2");
            }
            if !m.collection_this_op && m.prev_buffer.iter().any(|o| !set.contains(o)) {
                self.stats.borrow_mut().bump("buffer_left_by_non_collection_op");
            }
            m.prev_buffer = set.clone();
        }
        let m = self.m.borrow();
        if m.buf_exact && m.faults_fired.is_empty() {
            let model: BTreeSet<ObjId> = m.buf_model.iter().copied().filter(|o| m.objs[*o as usize].status == Status::Live).collect();
            if model != set {
                let msg = format!("buffered objects are {:?} but the documented enter/leave rules give {:?}", set, model);
                drop(m);
                self.fail("O-BUF.exact", msg);
            }
        }
    }

    fn check_refused(&self) {
        let refused = std::mem::take(&mut self.m.borrow_mut().refused);
        let m = self.m.borrow();
        for o in refused {
            let ob = &m.objs[o as usize];
            if ob.status == Status::Live && !ob.tainted {
                let msg = format!("a callback's upgrade of a Weak to object {} returned None although the object had strong pointers and was not destroyed during the operation", o);
                drop(m);
                self.fail("O-UPG.refused-in-callback", msg);
                return;
            }
        }
    }

    fn check_lingering(&self) {
        let m = self.m.borrow();
        if m.collection_this_op {
            return;
        }
        for (i, ob) in m.objs.iter().enumerate() {
            if ob.status == Status::Live && !ob.tainted && !ob.zero_in_collection && ob.kind != ObjKind::Map && World::count(&m, i as ObjId) == 0 {
                let msg = format!("object {} has no Cc pointer left, no collection ran, yet it was not destroyed", i);
                drop(m);
                self.fail("O-RC.lingering", msg);
                return;
            }
        }
    }

    fn check_cleaners(&self) {
        let m = self.m.borrow();
        for (i, ob) in m.objs.iter().enumerate() {
            if ob.kind != ObjKind::Map || ob.bulk_registered == 0 {
                continue;
            }
            let owner = &m.objs[ob.owner.unwrap() as usize];
            if ob.bulk_runs > ob.bulk_registered || (owner.status == Status::Dropped && !owner.tainted && !ob.tainted && ob.bulk_runs != ob.bulk_registered) {
                let msg = format!("cleaner map {}: {} of {} actions registered in bulk have run (owner is {:?})", i, ob.bulk_runs, ob.bulk_registered, owner.status);
                drop(m);
                self.fail("O-CLEAN.bulk", msg);
                return;
            }
        }
        for (uid, a) in m.actions.iter().enumerate() {
            if !a.registered || a.runs > 0 {
                continue;
            }
            let owner = &m.objs[a.owner as usize];
            if owner.status == Status::Dropped && !owner.tainted && !m.objs[a.map as usize].tainted {
                let msg = format!("the Cleaner of object {} was dropped but its cleaning action {} never ran", a.owner, uid);
                drop(m);
                self.fail("O-CLEAN.cleaner-drop", msg);
                return;
            }
        }
    }

    // ------------------------------------------------------------------ quiescence (C02 / C06)

    fn destructive_callbacks(&self) -> u64 {
        let st = self.stats.borrow();
        ["finalize", "drop", "finalize-leaf", "drop-leaf", "action"].iter().map(|k| st.callbacks.get(k).copied().unwrap_or(0)).sum()
    }

    pub fn quiesce(&self) {
        let mut converged = false;
        for _ in 0..64 {
            let before = self.destructive_callbacks();
            let freed_before = alloc::N_FREE.load(std::sync::atomic::Ordering::Relaxed);
            self.collect();
            if self.dead.get() {
                return;
            }
            let _ = freed_before;
            if self.destructive_callbacks() == before {
                converged = true;
                break;
            }
        }
        if !converged {
            self.fail("O-TERM.quiesce", "64 successive collect_cycles() calls each still ran finalizers or destructors".to_string());
            return;
        }
        self.stats.borrow_mut().bump("quiescence_reached");
        if self.m.borrow().faults_fired.is_empty() {
            self.check_complete();
        }
    }

    /// After quiescence in a fault-free run: everything unreachable and not pinned through an untraced field is gone.
    pub fn check_complete(&self) {
        self.sync();
        let m = self.m.borrow();
        let n = m.objs.len();
        let r = World::reach_ext(&m, true); // leaked pointers excuse their targets from reclamation
        let mut s: Vec<bool> = (0..n).map(|i| !r[i] && m.objs[i].status == Status::Live).collect();
        loop {
            // objects kept by an untraced pointer held by a member of S
            let mut keep = vec![false; n];
            let mut stack: Vec<ObjId> = Vec::new();
            for i in 0..n {
                if !s[i] {
                    continue;
                }
                let ob = &m.objs[i];
                for (k, t) in ob.edges.iter() {
                    let untraced = (k & 0xFF00_0000) != KEY_SLOT && (k & 0xFF00_0000) != KEY_BULK;
                    if untraced && !keep[*t as usize] {
                        keep[*t as usize] = true;
                        stack.push(*t);
                    }
                }
                if let Some(mp) = ob.map {
                    if !keep[mp as usize] {
                        keep[mp as usize] = true;
                        stack.push(mp);
                    }
                }
            }
            while let Some(o) = stack.pop() {
                let ob = &m.objs[o as usize];
                if ob.status != Status::Live {
                    continue;
                }
                for t in ob.edges.values().chain(ob.map.iter()) {
                    if !keep[*t as usize] {
                        keep[*t as usize] = true;
                        stack.push(*t);
                    }
                }
            }
            let mut changed = false;
            for i in 0..n {
                if s[i] && !keep[i] {
                    s[i] = false;
                    changed = true;
                }
            }
            if !changed {
                break;
            }
        }
        for i in 0..n {
            let ob = &m.objs[i];
            if !r[i] && ob.status == Status::Live && !s[i] && !ob.tainted && ob.kind != ObjKind::Map {
                let holders: Vec<String> = m.objs.iter().enumerate().flat_map(|(p, po)| po.edges.iter().filter(|(_, t)| **t == i as ObjId).map(move |(k, _)| format!("{}:{:#x}({:?}{})", p, k, po.status, if po.leaked_edges { ",leaked" } else { "" })).collect::<Vec<_>>()).collect();
                let msg = format!("object {} is unreachable from program-held pointers and not pinned through an untraced field, yet it survives repeated collect_cycles() calls (count {}, held by {:?}, was buffered: {})", i, World::count(&m, i as ObjId), holders, ob.was_buffered);
                drop(m);
                self.fail("O-COMPLETE.survivor", msg);
                return;
            }
        }
        let pinned = s.iter().filter(|x| **x).count();
        drop(m);
        if pinned > 0 {
            self.stats.borrow_mut().bump("quiescence_with_pinned_garbage");
        }
    }
}
