//! Crash-point sweep (C07 / C14): placeholder, filled in below.
use crate::program::Program;
use crate::stats::Stats;

pub fn sweep_program(_prog: &Program, _prop: &'static str, _max_points: usize, _total: &mut Stats, _hashes: &mut Vec<u64>, _samples: &mut Vec<String>) -> bool {
    false
}
