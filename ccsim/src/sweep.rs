//! Crash-point sweep (C07 / C14): for one sampled program, re-run it once per callback invocation with a
//! panic injected exactly there, then keep using the heap (remaining ops + epilogue).

use crate::program::*;
use crate::rng::{mix, Rng};
use crate::stats::Stats;

fn note_current(prog: &Program) {
    // the exact program (with its fault plan) is on disk before it runs, so that a crash can be attributed
    if let Ok(dir) = std::env::var("CCSIM_CURRENT_DIR") {
        let _ = std::fs::write(format!("{}/current-{}.prog", dir, std::process::id()), prog.to_text());
    }
}

/// Returns true if a violation was found (already printed).
pub fn sweep_program(prog: &Program, prop: &'static str, max_points: usize, total: &mut Stats, hashes: &mut Vec<u64>, samples: &mut Vec<String>) -> bool {
    let mut base = prog.clone();
    base.faults.clear();
    note_current(&base);
    let r0 = crate::run_isolated(&base, prop, false);
    if r0.violation.is_some() {
        return true;
    }
    total.merge(&r0.stats);
    // every callback invocation of every kind is a crash point
    let mut points: Vec<Fault> = Vec::new();
    for (i, (kind, _, _)) in FAULTS.iter().enumerate() {
        for k in 0..r0.fault_counters[i] {
            points.push(Fault { kind: *kind, k });
        }
    }
    let all = points.len();
    let mut rng = Rng::new(mix(prog.seed.0, 0x5EE9, prog.seed.1));
    if all > max_points {
        // keep the first and last invocation of every kind, sample the rest
        let mut keep: Vec<Fault> = Vec::new();
        for (i, (kind, _, _)) in FAULTS.iter().enumerate() {
            let n = r0.fault_counters[i];
            if n > 0 {
                keep.push(Fault { kind: *kind, k: 0 });
                if n > 1 {
                    keep.push(Fault { kind: *kind, k: n - 1 });
                }
            }
        }
        while keep.len() < max_points {
            let f = points[rng.below(points.len() as u64) as usize];
            if !keep.contains(&f) {
                keep.push(f);
            }
        }
        points = keep;
        *total.cap_hits.entry("sweep_points_sampled").or_insert(0) += 1;
    }
    total.add("sweep_programs", 1);
    total.add("sweep_points_total", all as u64);
    for f in points {
        let mut p1 = base.clone();
        p1.faults.push(f);
        note_current(&p1);
        let r1 = crate::run_isolated(&p1, prop, false);
        if r1.violation.is_some() {
            return true;
        }
        total.add("sweep_points_run", 1);
        if r1.stats.nontrivial.contains_key(prop) {
            hashes.push(r1.hash);
            if samples.len() < 3 {
                samples.push(p1.to_text());
            }
        }
        total.merge(&r1.stats);
        // a second, later fault for a third of the points
        if rng.chance(3, 10) {
            let kinds: Vec<usize> = (0..FaultKind::COUNT).filter(|i| r1.fault_counters[*i] > 0).collect();
            if !kinds.is_empty() {
                let ki = kinds[rng.below(kinds.len() as u64) as usize];
                let k2 = rng.below(r1.fault_counters[ki] as u64) as u32;
                let f2 = Fault { kind: FAULTS[ki].0, k: k2 };
                if f2 != f {
                    let mut p2 = p1.clone();
                    p2.faults.push(f2);
                    note_current(&p2);
                    let r2 = crate::run_isolated(&p2, prop, false);
                    if r2.violation.is_some() {
                        return true;
                    }
                    total.add("sweep_pairs_run", 1);
                    if r2.faults_fired >= 2 {
                        total.add("sweep_pairs_both_fired", 1);
                    }
                    if r2.stats.nontrivial.contains_key(prop) {
                        hashes.push(r2.hash);
                    }
                    total.merge(&r2.stats);
                }
            }
        }
    }
    false
}
