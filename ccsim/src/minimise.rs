//! Delta-debugging minimiser: placeholder, filled in below.
use crate::Args;
pub fn cmd_minimise(_a: &Args) {
    eprintln!("not implemented yet");
    std::process::exit(2);
}
