//! Delta-debugging minimiser. Every candidate runs in a child process (the heap of a failing run cannot be
//! trusted), and is kept only if the same oracle of the same property still fires (or the same crash class).

use std::process::Command;

use crate::program::*;
use crate::Args;

struct Ctx {
    exe: std::path::PathBuf,
    tmp: String,
    prop: String,
    oracle: String, // oracle id (prefix match on the base id) or "crash"
    tests: u32,
    max_tests: u32,
}

impl Ctx {
    fn fails(&mut self, p: &Program) -> bool {
        if self.tests >= self.max_tests {
            return false;
        }
        self.tests += 1;
        if std::fs::write(&self.tmp, p.to_text()).is_err() {
            return false;
        }
        // the child has its own watchdog; a shorter limit keeps minimisation moving when candidates hang
        let out = Command::new(&self.exe).arg("replay").arg(&self.tmp).arg("--prop").arg(&self.prop).env("CCSIM_RUN_TIMEOUT_MS", "5000").output();
        let Ok(out) = out else { return false };
        let text = String::from_utf8_lossy(&out.stdout);
        if self.oracle == "crash" {
            use std::os::unix::process::ExitStatusExt;
            return out.status.signal().is_some();
        }
        let base = self.oracle.split('.').next().unwrap_or(&self.oracle).to_string();
        text.lines().any(|l| (l.starts_with("@@VIOLATION") || l.starts_with("RESULT violation")) && l.contains(&format!("oracle={}", base)))
    }
}

fn ddmin_ops(ctx: &mut Ctx, prog: &mut Program) {
    let mut n = 2usize;
    while prog.ops.len() >= 2 {
        let len = prog.ops.len();
        let chunk = (len + n - 1) / n;
        let mut reduced = false;
        let mut start = 0;
        while start < prog.ops.len() {
            let end = (start + chunk).min(prog.ops.len());
            let mut cand = prog.clone();
            cand.ops.drain(start..end);
            if ctx.fails(&cand) {
                *prog = cand;
                reduced = true;
                n = n.saturating_sub(1).max(2);
            } else {
                start = end;
            }
        }
        if !reduced {
            if chunk == 1 {
                break;
            }
            n = (n * 2).min(prog.ops.len());
        }
        if ctx.tests >= ctx.max_tests {
            break;
        }
    }
}

fn simplify(ctx: &mut Ctx, prog: &mut Program) {
    // faults
    let mut i = 0;
    while i < prog.faults.len() {
        let mut cand = prog.clone();
        cand.faults.remove(i);
        if ctx.fails(&cand) {
            *prog = cand;
        } else {
            i += 1;
        }
    }
    // scripts and stores
    let vec2 = crate::node::STORE_KINDS.iter().position(|k| k.0 == "vec2").unwrap() as u16;
    for i in 0..prog.ops.len() {
        if !prog.ops[i].script.is_empty() {
            let mut cand = prog.clone();
            cand.ops[i].script.clear();
            if ctx.fails(&cand) {
                *prog = cand;
            } else {
                // try dropping single minis
                let mut k = 0;
                while k < prog.ops[i].script.len() {
                    let mut c2 = prog.clone();
                    c2.ops[i].script.remove(k);
                    if ctx.fails(&c2) {
                        *prog = c2;
                    } else {
                        k += 1;
                    }
                }
            }
        }
        if prog.ops[i].tmpl.is_some() {
            for which in 0..2 {
                let len = {
                    let t = prog.ops[i].tmpl.as_ref().unwrap();
                    if which == 0 { t.fin.len() } else { t.drop.len() }
                };
                if len == 0 {
                    continue;
                }
                let mut cand = prog.clone();
                {
                    let t = cand.ops[i].tmpl.as_mut().unwrap();
                    if which == 0 { t.fin.clear() } else { t.drop.clear() }
                }
                if ctx.fails(&cand) {
                    *prog = cand;
                    continue;
                }
                let mut k = 0;
                loop {
                    let cur = {
                        let t = prog.ops[i].tmpl.as_ref().unwrap();
                        if which == 0 { t.fin.len() } else { t.drop.len() }
                    };
                    if k >= cur {
                        break;
                    }
                    let mut c2 = prog.clone();
                    {
                        let t = c2.ops[i].tmpl.as_mut().unwrap();
                        if which == 0 { t.fin.remove(k); } else { t.drop.remove(k); }
                    }
                    if ctx.fails(&c2) {
                        *prog = c2;
                    } else {
                        k += 1;
                    }
                }
            }
            if prog.ops[i].tmpl.as_ref().unwrap().store != vec2 {
                let mut cand = prog.clone();
                cand.ops[i].tmpl.as_mut().unwrap().store = vec2;
                if ctx.fails(&cand) {
                    *prog = cand;
                }
            }
        }
    }
    // knobs
    if prog.knobs.auto {
        let mut cand = prog.clone();
        cand.knobs.auto = false;
        if ctx.fails(&cand) {
            *prog = cand;
        }
    }
    if prog.knobs.buffered != 0 {
        let mut cand = prog.clone();
        cand.knobs.buffered = 0;
        if ctx.fails(&cand) {
            *prog = cand;
        }
    }
}

pub fn minimise(exe: std::path::PathBuf, prog: &Program, prop: &str, oracle: &str, tmp: &str, max_tests: u32) -> (Program, u32, bool) {
    let mut ctx = Ctx { exe, tmp: tmp.to_string(), prop: prop.to_string(), oracle: oracle.to_string(), tests: 0, max_tests };
    let mut p = prog.clone();
    p.threads.clear();
    if !prog.threads.is_empty() {
        return (prog.clone(), 0, true); // multi-thread programs are reported as found
    }
    if !ctx.fails(&p) {
        return (p, ctx.tests, false);
    }
    for _ in 0..3 {
        let before = (p.ops.len(), p.faults.len());
        ddmin_ops(&mut ctx, &mut p);
        simplify(&mut ctx, &mut p);
        if (p.ops.len(), p.faults.len()) == before || ctx.tests >= ctx.max_tests {
            break;
        }
    }
    let _ = std::fs::remove_file(tmp);
    (p, ctx.tests, true)
}

pub fn cmd_minimise(a: &Args) {
    let file = a.pos.get(1).cloned().unwrap_or_else(|| {
        eprintln!("minimise needs a file");
        std::process::exit(2)
    });
    let text = std::fs::read_to_string(&file).unwrap_or_else(|e| {
        eprintln!("HARNESS-ERROR: cannot read {}: {}", file, e);
        std::process::exit(2)
    });
    let prog = Program::parse(&text).unwrap_or_else(|e| {
        eprintln!("HARNESS-ERROR: {}", e);
        std::process::exit(2)
    });
    let prop = a.get("prop").unwrap_or("C01").to_string();
    let oracle = a.get("oracle").unwrap_or("crash").to_string();
    let out = a.get("out").map(|s| s.to_string()).unwrap_or_else(|| format!("{}.min", file));
    let tmp = format!("{}.cand.{}", out, std::process::id());
    let exe = std::env::current_exe().expect("current exe");
    let (mut p, tests, reproduced) = minimise(exe, &prog, &prop, &oracle, &tmp, a.num("max-tests", 800) as u32);
    if !reproduced {
        println!("MINIMISE not-reproduced tests={}", tests);
        std::process::exit(4);
    }
    p.expect = Some((prop.clone(), oracle.clone()));
    std::fs::write(&out, p.to_text()).expect("write minimised program");
    println!("MINIMISE ok ops {} -> {} faults {} -> {} tests={} out={}", prog.ops.len(), p.ops.len(), prog.faults.len(), p.faults.len(), tests, out);
}
