//! Instrumented global allocator: ledger of every block, fill on alloc, poison on free,
//! quarantine (no address reuse inside a run), layout / double-free / foreign-pointer checks.
//!
//! The allocator never allocates through itself: its table lives in memory obtained from
//! `System` directly and is protected by a spin lock.

use std::alloc::{GlobalAlloc, Layout, System};
use std::cell::Cell;
use std::sync::atomic::{AtomicBool, AtomicU64, AtomicUsize, Ordering};

pub const FILL: u8 = 0xA5;
pub const POISON: u8 = 0xDD;

const EMPTY: u8 = 0;
const LIVE: u8 = 1;
const QUAR: u8 = 2;
const TOMB: u8 = 3;

#[derive(Copy, Clone)]
struct Entry {
    base: usize,
    size: usize,
    align: usize,
    tag: u32,
    state: u8,
}

const EMPTY_ENTRY: Entry = Entry { base: 0, size: 0, align: 0, tag: 0, state: EMPTY };

struct Table {
    ptr: *mut Entry,
    cap: usize,
    used: usize, // live + quarantined + tombstones
    quar: usize,
    tombs: usize,
    // bases of the quarantined blocks, in order of release
    qlist: *mut usize,
    qcap: usize,
}

struct Global {
    lock: AtomicBool,
    table: std::cell::UnsafeCell<Table>,
}
unsafe impl Sync for Global {}

static G: Global = Global {
    lock: AtomicBool::new(false),
    table: std::cell::UnsafeCell::new(Table { ptr: std::ptr::null_mut(), cap: 0, used: 0, quar: 0, tombs: 0, qlist: std::ptr::null_mut(), qcap: 0 }),
};

/// Quarantine on/off (on during a run).
static QUARANTINE: AtomicBool = AtomicBool::new(false);
/// Counters (monotonic).
pub static N_ALLOC: AtomicU64 = AtomicU64::new(0);
pub static N_FREE: AtomicU64 = AtomicU64::new(0);

/// First allocator-level violation: kind (0 none), base, got size, got align, expected size, expected align, tag.
static V_KIND: AtomicUsize = AtomicUsize::new(0);
static V_BASE: AtomicUsize = AtomicUsize::new(0);
static V_GOT_SIZE: AtomicUsize = AtomicUsize::new(0);
static V_GOT_ALIGN: AtomicUsize = AtomicUsize::new(0);
static V_EXP_SIZE: AtomicUsize = AtomicUsize::new(0);
static V_EXP_ALIGN: AtomicUsize = AtomicUsize::new(0);
static V_TAG: AtomicUsize = AtomicUsize::new(0);

pub const V_DOUBLE_FREE: usize = 1;
pub const V_UNKNOWN_PTR: usize = 2;
pub const V_BAD_LAYOUT: usize = 3;
pub const V_WRITE_AFTER_FREE: usize = 4;

thread_local! {
    /// Tag applied to blocks allocated by the current thread (set by the world around library calls / callbacks).
    static TAG: Cell<u32> = const { Cell::new(0) };
}

pub fn set_tag(t: u32) -> u32 {
    TAG.try_with(|c| c.replace(t)).unwrap_or(0)
}
fn cur_tag() -> u32 {
    TAG.try_with(|c| c.get()).unwrap_or(0)
}

struct Guard;
impl Guard {
    #[inline]
    fn lock() -> Guard {
        while G.lock.compare_exchange_weak(false, true, Ordering::Acquire, Ordering::Relaxed).is_err() {
            std::hint::spin_loop();
        }
        Guard
    }
}
impl Drop for Guard {
    #[inline]
    fn drop(&mut self) {
        G.lock.store(false, Ordering::Release);
    }
}

#[inline]
fn hash(base: usize) -> usize {
    let x = (base as u64 >> 3).wrapping_mul(0x9E37_79B9_7F4A_7C15);
    (x >> 20) as usize
}

impl Table {
    unsafe fn grow(&mut self) {
        let new_cap = if self.cap == 0 { 1 << 14 } else if self.tombs * 2 > self.used { self.cap } else { self.cap * 2 };
        let layout = Layout::array::<Entry>(new_cap).unwrap();
        let np = System.alloc(layout) as *mut Entry;
        if np.is_null() {
            std::process::abort();
        }
        for i in 0..new_cap {
            np.add(i).write(EMPTY_ENTRY);
        }
        let old = self.ptr;
        let old_cap = self.cap;
        self.ptr = np;
        self.cap = new_cap;
        self.used = 0;
        self.tombs = 0;
        for i in 0..old_cap {
            let e = *old.add(i);
            if e.state == LIVE || e.state == QUAR {
                self.insert_raw(e);
            }
        }
        if !old.is_null() {
            System.dealloc(old as *mut u8, Layout::array::<Entry>(old_cap).unwrap());
        }
    }

    #[inline]
    unsafe fn insert_raw(&mut self, e: Entry) {
        let mask = self.cap - 1;
        let mut i = hash(e.base) & mask;
        loop {
            let s = &mut *self.ptr.add(i);
            if s.state == EMPTY {
                *s = e;
                self.used += 1;
                return;
            }
            if s.state == TOMB {
                *s = e;
                self.tombs -= 1;
                return;
            }
            i = (i + 1) & mask;
        }
    }

    #[inline]
    unsafe fn insert(&mut self, e: Entry) {
        if self.cap == 0 || (self.used + 1) * 4 > self.cap * 3 {
            self.grow();
        }
        self.insert_raw(e);
    }

    #[inline]
    unsafe fn find(&mut self, base: usize) -> Option<&mut Entry> {
        if self.cap == 0 {
            return None;
        }
        let mask = self.cap - 1;
        let mut i = hash(base) & mask;
        loop {
            let s = &mut *self.ptr.add(i);
            if s.state == EMPTY {
                return None;
            }
            if s.state != TOMB && s.base == base {
                return Some(s);
            }
            i = (i + 1) & mask;
        }
    }
}

fn record_violation(kind: usize, base: usize, gs: usize, ga: usize, es: usize, ea: usize, tag: u32) {
    if V_KIND.compare_exchange(0, kind, Ordering::SeqCst, Ordering::SeqCst).is_ok() {
        V_BASE.store(base, Ordering::SeqCst);
        V_GOT_SIZE.store(gs, Ordering::SeqCst);
        V_GOT_ALIGN.store(ga, Ordering::SeqCst);
        V_EXP_SIZE.store(es, Ordering::SeqCst);
        V_EXP_ALIGN.store(ea, Ordering::SeqCst);
        V_TAG.store(tag as usize, Ordering::SeqCst);
    }
}

#[derive(Debug, Clone, Copy)]
pub struct AllocViolation {
    pub kind: usize,
    pub base: usize,
    pub got_size: usize,
    pub got_align: usize,
    pub exp_size: usize,
    pub exp_align: usize,
    pub tag: u32,
}

impl AllocViolation {
    pub fn describe(&self) -> String {
        let k = match self.kind {
            V_DOUBLE_FREE => "double free",
            V_UNKNOWN_PTR => "free of a pointer that is not a live block",
            V_BAD_LAYOUT => "free with a layout different from the allocation layout",
            V_WRITE_AFTER_FREE => "write to a freed block",
            _ => "?",
        };
        format!(
            "{k}: got (size {}, align {}), block is (size {}, align {}), block tag {}",
            self.got_size, self.got_align, self.exp_size, self.exp_align, self.tag
        )
    }
}

pub fn take_violation() -> Option<AllocViolation> {
    let k = V_KIND.load(Ordering::SeqCst);
    if k == 0 {
        return None;
    }
    let v = AllocViolation {
        kind: k,
        base: V_BASE.load(Ordering::SeqCst),
        got_size: V_GOT_SIZE.load(Ordering::SeqCst),
        got_align: V_GOT_ALIGN.load(Ordering::SeqCst),
        exp_size: V_EXP_SIZE.load(Ordering::SeqCst),
        exp_align: V_EXP_ALIGN.load(Ordering::SeqCst),
        tag: V_TAG.load(Ordering::SeqCst) as u32,
    };
    V_KIND.store(0, Ordering::SeqCst);
    Some(v)
}

#[inline]
unsafe fn all_poison(p: *const u8, size: usize) -> bool {
    let mut k = 0;
    while k < size && (p.add(k) as usize) % 8 != 0 {
        if *p.add(k) != POISON {
            return false;
        }
        k += 1;
    }
    const W: u64 = u64::from_ne_bytes([POISON; 8]);
    while k + 8 <= size {
        if *(p.add(k) as *const u64) != W {
            return false;
        }
        k += 8;
    }
    while k < size {
        if *p.add(k) != POISON {
            return false;
        }
        k += 1;
    }
    true
}

pub struct SimAlloc;

unsafe impl GlobalAlloc for SimAlloc {
    unsafe fn alloc(&self, layout: Layout) -> *mut u8 {
        let p = System.alloc(layout);
        if p.is_null() {
            return p;
        }
        std::ptr::write_bytes(p, FILL, layout.size());
        let tag = cur_tag();
        let _g = Guard::lock();
        let t = &mut *G.table.get();
        // A System address can only come back if we released it; then its entry is gone.
        t.insert(Entry { base: p as usize, size: layout.size(), align: layout.align(), tag, state: LIVE });
        N_ALLOC.fetch_add(1, Ordering::Relaxed);
        p
    }

    unsafe fn dealloc(&self, ptr: *mut u8, layout: Layout) {
        let release;
        {
            let _g = Guard::lock();
            let t = &mut *G.table.get();
            let q = QUARANTINE.load(Ordering::Relaxed);
            match t.find(ptr as usize) {
                None => {
                    record_violation(V_UNKNOWN_PTR, ptr as usize, layout.size(), layout.align(), 0, 0, 0);
                    return; // leak: do not forward an unknown pointer
                }
                Some(e) => {
                    if e.state == QUAR {
                        record_violation(V_DOUBLE_FREE, e.base, layout.size(), layout.align(), e.size, e.align, e.tag);
                        return;
                    }
                    if e.size != layout.size() || e.align != layout.align() {
                        record_violation(V_BAD_LAYOUT, e.base, layout.size(), layout.align(), e.size, e.align, e.tag);
                        // keep going with the real layout so that the process survives
                    }
                    let real = Layout::from_size_align_unchecked(e.size, e.align);
                    N_FREE.fetch_add(1, Ordering::Relaxed);
                    if q {
                        e.state = QUAR;
                        std::ptr::write_bytes(ptr, POISON, real.size());
                        if t.quar == t.qcap {
                            let ncap = if t.qcap == 0 { 4096 } else { t.qcap * 2 };
                            let np = System.alloc(Layout::array::<usize>(ncap).unwrap()) as *mut usize;
                            if np.is_null() {
                                std::process::abort();
                            }
                            if !t.qlist.is_null() {
                                std::ptr::copy_nonoverlapping(t.qlist, np, t.quar);
                                System.dealloc(t.qlist as *mut u8, Layout::array::<usize>(t.qcap).unwrap());
                            }
                            t.qlist = np;
                            t.qcap = ncap;
                        }
                        *t.qlist.add(t.quar) = ptr as usize;
                        t.quar += 1;
                        return;
                    } else {
                        e.state = TOMB;
                        t.tombs += 1;
                        release = real;
                    }
                }
            }
        }
        System.dealloc(ptr, release);
    }
}

/// Starts a run: blocks freed from now on are poisoned and kept (no address reuse).
pub fn begin_run() {
    QUARANTINE.store(true, Ordering::SeqCst);
}

/// Ends a run: checks that no quarantined block was written to, then releases them.
/// Returns the number of quarantined blocks released.
pub fn end_run() -> usize {
    QUARANTINE.store(false, Ordering::SeqCst);
    let mut n = 0;
    unsafe {
        let _g = Guard::lock();
        let t = &mut *G.table.get();
        if t.quar == 0 {
            return 0;
        }
        let nq = t.quar;
        for qi in 0..nq {
            let base = *t.qlist.add(qi);
            let Some(e) = t.find(base) else { continue };
            if e.state != QUAR {
                continue;
            }
            if !all_poison(e.base as *const u8, e.size) {
                record_violation(V_WRITE_AFTER_FREE, e.base, 0, 0, e.size, e.align, e.tag);
            }
            let (b, s, a) = (e.base, e.size, e.align);
            e.state = TOMB;
            System.dealloc(b as *mut u8, Layout::from_size_align_unchecked(s, a));
            n += 1;
        }
        t.tombs += n;
        t.quar = 0;
    }
    n
}

#[derive(Debug, Clone, Copy, PartialEq, Eq)]
pub enum BlockState {
    Unknown,
    Live,
    Freed,
}

#[derive(Debug, Clone, Copy)]
pub struct BlockInfo {
    pub state: BlockState,
    pub size: usize,
    pub align: usize,
    pub tag: u32,
}

/// Looks a block up by base address.
pub fn block(base: usize) -> BlockInfo {
    unsafe {
        let _g = Guard::lock();
        let t = &mut *G.table.get();
        match t.find(base) {
            None => BlockInfo { state: BlockState::Unknown, size: 0, align: 0, tag: 0 },
            Some(e) => BlockInfo {
                state: if e.state == LIVE { BlockState::Live } else { BlockState::Freed },
                size: e.size,
                align: e.align,
                tag: e.tag,
            },
        }
    }
}

/// Checks that a quarantined block still holds only poison (write-after-free detector, callable mid-run).
pub fn poison_intact(base: usize) -> bool {
    unsafe {
        let _g = Guard::lock();
        let t = &mut *G.table.get();
        match t.find(base) {
            Some(e) if e.state == QUAR => all_poison(e.base as *const u8, e.size),
            _ => true,
        }
    }
}

/// Number of live blocks carrying `tag` (diagnostics / leak accounting).
pub fn count_live_with_tag(pred: impl Fn(u32) -> bool) -> usize {
    unsafe {
        let _g = Guard::lock();
        let t = &mut *G.table.get();
        let mut n = 0;
        for i in 0..t.cap {
            let e = &*t.ptr.add(i);
            if e.state == LIVE && pred(e.tag) {
                n += 1;
            }
        }
        n
    }
}
