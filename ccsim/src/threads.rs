//! C19: independent programs on 2..16 real threads. A seeded baton scheduler decides which thread performs
//! the next top-level operation (threads are parked on a condvar and released one at a time), and when each
//! thread exits; at exit a user thread-local still holds Ccs and objects are still buffered, and the relative
//! destruction order of that thread-local and the collector's own is decided by first-touch order.

use std::cell::RefCell;
use std::sync::{Arc, Condvar, Mutex};

use crate::alloc;
use crate::leaves::AnyCc;
use crate::program::*;
use crate::run::RunResult;
use crate::stats::Stats;
use crate::world::*;

struct UserTls {
    kept: Vec<(AnyCc, ObjId)>,
    touched: bool,
}

impl Drop for UserTls {
    fn drop(&mut self) {
        // Runs during thread teardown, before or after the collector's own thread-locals.
        let Some(w) = world() else { return };
        let buffer_gone = rust_cc::state::buffered_objects_count().is_err();
        w.stats.borrow_mut().bump(if buffer_gone { "teardown_user_tls_after_collector_buffer" } else { "teardown_user_tls_before_collector_buffer" });
        if !self.kept.is_empty() {
            w.stats.borrow_mut().bump("teardown_dropped_ccs_from_user_tls");
        }
        {
            let mut m = w.m.borrow_mut();
            m.op_index += 1;
            m.teardown = true;
            m.buf_exact = false;
        }
        let kept = std::mem::take(&mut self.kept);
        for (cc, o) in kept {
            if w.dead.get() {
                std::mem::forget(cc);
                continue;
            }
            {
                let mut m = w.m.borrow_mut();
                if let Some(p) = m.tls_roots.iter().position(|x| *x == o) {
                    m.tls_roots.remove(p);
                }
            }
            let r = std::panic::catch_unwind(std::panic::AssertUnwindSafe(|| w.drop_cc(cc, o, "a Cc held by a user thread-local during thread teardown")));
            if let Err(p) = r {
                if p.is::<Injected>() {
                    continue; // the thread's own callback panicked (injected) and the program caught it: nothing wrong
                }
                w.fail("O-THREAD.teardown-panic", format!("dropping a Cc from a thread-local destructor panicked: {}", crate::exec::panic_message(&p)));
            }
        }
        if !w.dead.get() {
            w.teardown_checks();
        }
    }
}

thread_local! {
    static USER_TLS: RefCell<UserTls> = RefCell::new(UserTls { kept: Vec::new(), touched: false });
}

impl World {
    /// What can still be checked while the thread is being torn down: allocator rules, release of what was dropped.
    pub fn teardown_checks(&self) {
        self.sync();
        if self.dead.get() {
            return;
        }
        if let Some(v) = alloc::take_violation() {
            self.fail("O-ALLOC.ledger", v.describe());
            return;
        }
        let m = self.m.borrow();
        for (i, ob) in m.objs.iter().enumerate() {
            if ob.box_addr == 0 {
                continue;
            }
            let st = alloc::block(ob.box_addr).state;
            if ob.status == Status::Live && st != alloc::BlockState::Live {
                let msg = format!("thread teardown released the allocation of object {} whose value was never dropped", i);
                drop(m);
                self.fail("O-MEM.freed-alive", msg);
                return;
            }
            if ob.status == Status::Dropped && st == alloc::BlockState::Live && !ob.tainted {
                let msg = format!("object {} was dropped during thread teardown but its allocation was not released", i);
                drop(m);
                self.fail("O-FREED.box", msg);
                return;
            }
        }
    }
}

#[derive(Clone, Copy, PartialEq, Eq, Debug)]
enum Turn {
    Coordinator,
    Thread(usize),
}

struct Baton {
    turn: Mutex<Turn>,
    cv: Condvar,
}

impl Baton {
    fn wait_for(&self, me: Turn) {
        let mut t = self.turn.lock().unwrap();
        while *t != me {
            t = self.cv.wait(t).unwrap();
        }
    }
    fn give(&self, to: Turn) {
        *self.turn.lock().unwrap() = to;
        self.cv.notify_all();
    }
}

struct ThreadOut {
    violation: Option<Violation>,
    stats: Stats,
    hash: u64,
    ops_done: u32,
    buffered_at_exit: usize,
}

pub fn run_threads(prog: &Program, prop: &'static str, verbose: bool) -> RunResult {
    let n = prog.threads.len();
    crate::RUN_STARTED_MS.store(crate::next_run_stamp(), std::sync::atomic::Ordering::Relaxed);
    alloc::begin_run();
    rust_cc::verif::set_alloc_observer(Some(crate::callbacks::observer));
    let baton = Arc::new(Baton { turn: Mutex::new(Turn::Coordinator), cv: Condvar::new() });
    let outs: Arc<Mutex<Vec<Option<ThreadOut>>>> = Arc::new(Mutex::new((0..n).map(|_| None).collect()));
    let dead_flag = Arc::new(std::sync::atomic::AtomicBool::new(false));
    let mut handles = Vec::new();
    // worlds outlive their threads' teardown: they are owned here
    let worlds: Vec<Box<World>> = prog.threads.iter().map(|tp| Box::new(World::new(tp.knobs, tp.faults.clone(), prop, false))).collect();
    let world_ptrs: Vec<usize> = worlds.iter().map(|w| &**w as *const World as usize).collect();
    for (i, tp) in prog.threads.iter().cloned().enumerate() {
        let baton = baton.clone();
        let outs = outs.clone();
        let wp = world_ptrs[i];
        let dead_flag = dead_flag.clone();
        let h = std::thread::Builder::new()
            .stack_size(8 << 20)
            .spawn(move || {
                let me = Turn::Thread(i);
                let w: &World = unsafe { &*(wp as *const World) };
                baton.wait_for(me);
                if tp.tls_first {
                    // registered before the collector's thread-locals => destroyed after them
                    USER_TLS.with(|u| u.borrow_mut().touched = true);
                }
                set_world(w as *const World);
                w.thread_tag.set(i as u32);
                alloc::set_tag(0);
                let _ = rust_cc::verif::take_probes();
                w.apply_knobs(&tp.knobs);
                w.stats.borrow_mut().runs = 1;
                w.m.borrow_mut().prog_ops = tp.ops.len() as u32;
                baton.give(Turn::Coordinator);
                let mut done = 0u32;
                for op in &tp.ops {
                    baton.wait_for(me);
                    if !w.dead.get() && !dead_flag.load(std::sync::atomic::Ordering::SeqCst) {
                        w.step(op);
                        done += 1;
                    }
                    if w.dead.get() {
                        dead_flag.store(true, std::sync::atomic::Ordering::SeqCst);
                    }
                    baton.give(Turn::Coordinator);
                }
                // final step: park some handles in the user thread-local; whatever else is held or buffered stays
                baton.wait_for(me);
                let mut buffered = 0;
                if !w.dead.get() {
                    let mut moved = 0;
                    let nroots = w.m.borrow().root_obj.len();
                    for r in 0..nroots {
                        if moved >= tp.tls_keep {
                            break;
                        }
                        if w.m.borrow().root_obj[r].is_some() {
                            let (cc, o) = w.take_root(r);
                            w.m.borrow_mut().tls_roots.push(o);
                            USER_TLS.with(|u| u.borrow_mut().kept.push((cc, o)));
                            moved += 1;
                        }
                    }
                    // the remaining program-held handles are leaked on purpose (the thread just ends)
                    let rest: Vec<usize> = {
                        let m = w.m.borrow();
                        (0..m.root_obj.len()).filter(|r| m.root_obj[*r].is_some()).collect()
                    };
                    for r in rest {
                        if r % 2 == 0 && w.m.borrow().root_obj[r].is_some() && !w.dead.get() {
                            w.step(&Op::new(OpCode::Drop, &[r as i64])); // (a planned callback panic may fire here: step() recovers)
                        }
                    }
                    w.after_op(false);
                    buffered = rust_cc::state::buffered_objects_count().unwrap_or(0);
                    if !tp.tls_first {
                        USER_TLS.with(|u| u.borrow_mut().touched = true);
                    }
                }
                baton.give(Turn::Coordinator);
                // exit step: returning runs the thread-local destructors (user's and the collector's)
                baton.wait_for(me);
                outs.lock().unwrap()[i] = Some(ThreadOut { violation: None, stats: Stats::default(), hash: w.hash.get(), ops_done: done, buffered_at_exit: buffered });
            })
            .expect("spawn");
        handles.push(Some(h));
    }
    // the schedule: which thread takes the next step; every thread needs ops + 3 steps (setup, final, exit)
    let mut remaining: Vec<u32> = prog.threads.iter().map(|t| t.ops.len() as u32 + 3).collect();
    let mut switches = 0u32;
    let mut last = usize::MAX;
    let mut sched_iter = prog.schedule.iter().copied();
    let mut rr = 0usize;
    loop {
        if remaining.iter().all(|r| *r == 0) {
            break;
        }
        let t = loop {
            match sched_iter.next() {
                Some(t) if (t as usize) < n && remaining[t as usize] > 0 => break t as usize,
                Some(_) => continue,
                None => {
                    while remaining[rr % n] == 0 {
                        rr += 1;
                    }
                    break rr % n;
                }
            }
        };
        if t != last {
            switches += 1;
            last = t;
        }
        remaining[t] -= 1;
        baton.give(Turn::Thread(t));
        if remaining[t] == 0 {
            // exit step: wait for the thread to be gone, thread-local destructors included
            if let Some(h) = handles[t].take() {
                if h.join().is_err() {
                    eprintln!("HARNESS-ERROR: a simulated thread panicked outside any operation");
                    std::process::exit(2);
                }
            }
            *baton.turn.lock().unwrap() = Turn::Coordinator;
        } else {
            baton.wait_for(Turn::Coordinator);
        }
    }
    alloc::end_run();
    crate::RUN_STARTED_MS.store(0, std::sync::atomic::Ordering::Relaxed);
    let mut total = Stats::default();
    let mut violation = None;
    let mut hash: u64 = 0xcbf2_9ce4_8422_2325;
    let mut active = 0;
    let mut exit_buffered = false;
    let outs = outs.lock().unwrap();
    for (i, w) in worlds.iter().enumerate() {
        if let Some(v) = w.violation.borrow().clone() {
            violation.get_or_insert(v);
        }
        total.merge(&w.stats.borrow());
        hash = (hash ^ w.hash.get()).wrapping_mul(0x0000_0100_0000_01B3).rotate_left(17);
        if let Some(o) = &outs[i] {
            if o.ops_done >= 3 {
                active += 1;
            }
            exit_buffered |= o.buffered_at_exit > 0;
        }
    }
    for t in &prog.schedule {
        hash = (hash ^ *t as u64).wrapping_mul(0x0000_0100_0000_01B3);
    }
    if violation.is_none() {
        if let Some(v) = alloc::take_violation() {
            let viol = Violation { property: "C19", oracle: "O-ALLOC.ledger", msg: v.describe(), op_index: 0, frames: String::new() };
            println!("@@VIOLATION property={} oracle={} op=end msg={}", viol.property, viol.oracle, viol.msg);
            violation = Some(viol);
        }
    }
    total.runs = 1;
    if active >= 2 && switches >= 2 && exit_buffered {
        total.nontrivial.insert("C19", 1);
    }
    total.add("threads_total", n as u64);
    total.add("context_switches", switches as u64);
    let _ = verbose;
    drop(outs);
    // The worlds are released only now, after every thread is gone. Handles a thread left behind are leaked, as the
    // thread itself leaked them: a Cc must never be dropped on another thread.
    for w in &worlds {
        w.leak_tables();
    }
    drop(worlds);
    RunResult { fault_counters: [0; FaultKind::COUNT], violation, hash, stats: total, faults_fired: 0, log: None }
}
