//! C19: threads profile: placeholder, filled in below.
use crate::program::Program;
use crate::run::RunResult;
pub fn run_threads(_prog: &Program, _prop: &'static str, _verbose: bool) -> RunResult {
    eprintln!("HARNESS-ERROR: threads profile not implemented yet");
    std::process::exit(2);
}
