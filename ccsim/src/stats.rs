//! Counters gathered by the machinery itself (they become the evidence files).

use std::collections::BTreeMap;

#[derive(Default, Clone)]
pub struct Stats {
    pub runs: u64,
    pub ops: u64,
    pub steps: u64, // logical steps: top-level ops + callback invocations ("simulated time")
    pub callbacks: BTreeMap<&'static str, u64>,
    pub faults_fired: BTreeMap<String, u64>, // "kind@phase"
    pub counters: BTreeMap<String, u64>,     // "rare condition hit" probes of the harness
    pub probes: Vec<u64>,                    // crate-side probe counters (verif::take_probes)
    pub nontrivial: BTreeMap<&'static str, u64>, // property -> runs satisfying its non-triviality rule
    pub collections: u64,
    pub objects: u64,
    pub freed_by_collector: u64,
    pub freed_by_rc: u64,
    pub op_kinds: BTreeMap<&'static str, u64>,
    pub store_reach: BTreeMap<String, u64>, // "kind/slot" -> carried an edge of a reclaimed cycle
    pub cap_hits: BTreeMap<&'static str, u64>,
}

impl Stats {
    pub fn bump(&mut self, k: &str) {
        *self.counters.entry(k.to_string()).or_insert(0) += 1;
    }
    pub fn add(&mut self, k: &str, n: u64) {
        *self.counters.entry(k.to_string()).or_insert(0) += n;
    }
    pub fn cb(&mut self, k: &'static str) {
        *self.callbacks.entry(k).or_insert(0) += 1;
        self.steps += 1;
    }
    pub fn merge(&mut self, o: &Stats) {
        self.runs += o.runs;
        self.ops += o.ops;
        self.steps += o.steps;
        self.collections += o.collections;
        self.objects += o.objects;
        self.freed_by_collector += o.freed_by_collector;
        self.freed_by_rc += o.freed_by_rc;
        for (k, v) in &o.callbacks {
            *self.callbacks.entry(k).or_insert(0) += v;
        }
        for (k, v) in &o.faults_fired {
            *self.faults_fired.entry(k.clone()).or_insert(0) += v;
        }
        for (k, v) in &o.counters {
            *self.counters.entry(k.clone()).or_insert(0) += v;
        }
        for (k, v) in &o.nontrivial {
            *self.nontrivial.entry(k).or_insert(0) += v;
        }
        for (k, v) in &o.op_kinds {
            *self.op_kinds.entry(k).or_insert(0) += v;
        }
        for (k, v) in &o.store_reach {
            *self.store_reach.entry(k.clone()).or_insert(0) += v;
        }
        for (k, v) in &o.cap_hits {
            *self.cap_hits.entry(k).or_insert(0) += v;
        }
        if self.probes.len() < o.probes.len() {
            self.probes.resize(o.probes.len(), 0);
        }
        for (i, v) in o.probes.iter().enumerate() {
            self.probes[i] += v;
        }
    }

    pub fn to_json(&self) -> String {
        fn map<K: AsRef<str>>(m: impl Iterator<Item = (K, u64)>) -> String {
            let mut s = String::from("{");
            for (i, (k, v)) in m.enumerate() {
                if i > 0 {
                    s.push(',');
                }
                s.push_str(&format!("\"{}\":{}", k.as_ref(), v));
            }
            s.push('}');
            s
        }
        let probes = {
            let names = rust_cc::verif::PROBE_NAMES;
            map(self.probes.iter().enumerate().filter(|(i, _)| !names[*i].starts_with("reserved")).map(|(i, v)| (names[i], *v)))
        };
        format!(
            "{{\"runs\":{},\"ops\":{},\"steps\":{},\"collections\":{},\"objects\":{},\"freed_by_collector\":{},\"freed_by_rc\":{},\"callbacks\":{},\"faults_fired\":{},\"counters\":{},\"probes\":{},\"nontrivial\":{},\"op_kinds\":{},\"store_reach\":{},\"cap_hits\":{}}}",
            self.runs,
            self.ops,
            self.steps,
            self.collections,
            self.objects,
            self.freed_by_collector,
            self.freed_by_rc,
            map(self.callbacks.iter().map(|(k, v)| (*k, *v))),
            map(self.faults_fired.iter().map(|(k, v)| (k.as_str(), *v))),
            map(self.counters.iter().map(|(k, v)| (k.as_str(), *v))),
            probes,
            map(self.nontrivial.iter().map(|(k, v)| (*k, *v))),
            map(self.op_kinds.iter().map(|(k, v)| (*k, *v))),
            map(self.store_reach.iter().map(|(k, v)| (k.as_str(), *v))),
            map(self.cap_hits.iter().map(|(k, v)| (*k, *v))),
        )
    }
}
