//! Non-triviality rules (DESIGN.md 11.3): a run counts for a property only if it exercised
//! the situation the property is about. Evaluated from the run's own counters.

use crate::world::World;

pub fn classify(w: &World) {
    {
        let m = w.m.borrow();
        let mut st = w.stats.borrow_mut();
        st.add("freed_leaf_layouts_distinct", m.leaf_layouts_freed.len() as u64);
        st.add("free_paths_distinct", m.free_paths.len() as u64);
        if let Some((op, live)) = m.fault_op {
            if live >= 2 && op + 3 <= m.prog_ops {
                st.bump("fault_fired_with_continuation");
            }
        }
    }
    let mut st = w.stats.borrow_mut();
    let c = |k: &str| st.counters.get(k).copied().unwrap_or(0);
    let cb = |k: &str| st.callbacks.get(k).copied().unwrap_or(0);
    let mut hits: Vec<&'static str> = Vec::new();
    if st.freed_by_collector >= 1 && c("traced_reachable_object") >= 1 {
        hits.push("C01");
    }
    if c("collector_dropped_object_with_edges") >= 1 && c("traced_reachable_object") >= 1 {
        hits.push("C02");
    }
    if c("freed_leaf_layouts_distinct") >= 2 && c("free_paths_distinct") >= 2 {
        hits.push("C03");
    }
    if c("last_owner_drop_of_buffered_or_processed") >= 1 {
        hits.push("C04");
    }
    if c("finalize_in_collector") >= 1 && c("finalize_in_rc_path") >= 1 {
        hits.push("C05");
    }
    if c("resurrected_object_survived_collection") >= 1 && st.freed_by_collector >= 1 {
        hits.push("C06");
    }
    if c("fault_fired_with_continuation") >= 1 {
        hits.push("C07");
    }
    if (c("upgrade_ok_top") + c("upgrade_ok_in_callback")) >= 1 && (c("upgrade_none_top") + c("upgrade_none_in_callback")) >= 1 && (c("upgrade_ok_in_callback") + c("upgrade_none_in_callback")) >= 1 {
        hits.push("C08");
    }
    if c("side_record_outlived_box") + c("box_outlived_last_weak") >= 1 && c("weak_handles_peak_ge2") >= 1 {
        hits.push("C09");
    }
    if c("clean_ran_action") >= 1 && c("action_run_by_cleaner_drop") >= 1 {
        hits.push("C10");
    }
    if c("buffer_ge2") >= 1 && c("buffer_left_by_non_collection_op") >= 1 {
        hits.push("C11");
    }
    if c("collect_requested_from_callback") + c("creation_from_callback") >= 1 {
        hits.push("C12");
    }
    if c("try_unwrap_ok_interesting") >= 1 && c("try_unwrap_err") >= 1 {
        hits.push("C13");
    }
    if c("closure_saved_weak") >= 1 {
        hits.push("C14");
    }
    if c("auto_collection_fired") >= 1 && c("creation_without_collection") >= 1 && c("threshold_changed") >= 1 {
        hits.push("C15");
    }
    if c("limit_attempt") >= 1 {
        hits.push("C16");
    }
    if c("cycle_through_non_vec_position_reclaimed") >= 1 {
        hits.push("C17");
    }
    if c("address_sampled_across_downgrade_and_collection") >= 1 {
        hits.push("C20");
    }
    let _ = cb;
    for h in hits {
        st.nontrivial.insert(h, 1);
    }
}
