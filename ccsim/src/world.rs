//! The simulated world: real handle tables, the mirror (reference model) and shared helpers.
//! Other `impl World` blocks: exec.rs (operations), callbacks.rs (cb_*), scripts.rs, oracles.rs.

use std::cell::{Cell, RefCell};
use std::collections::BTreeMap;

use crate::compat::Cleanable;
use crate::leaves::{AnyCc, AnyVal, AnyWeak};
use crate::program::*;
use crate::stats::Stats;

pub use crate::callbacks::*;

pub type ObjId = u32;

#[derive(Clone, Copy, PartialEq, Eq, Debug)]
pub enum ObjKind {
    Node,
    Leaf(u8),
    KeyI,
    KeyF,
    Map,
}

#[derive(Clone, Copy, PartialEq, Eq, Debug)]
pub enum Status {
    Pending,           // value built by the harness, not boxed yet
    UnderConstruction, // new_cyclic: box exists, value not written yet
    Live,
    Unwrapped,  // moved out by try_unwrap, held in the bag
    Destroying, // destructor / drop glue running
    Dropped,    // value dropped
    Gone,       // never boxed / never constructed and gone
}

pub struct Obj {
    pub kind: ObjKind,
    pub status: Status,
    pub store_kind: u16,
    pub nslots: u32,
    pub box_addr: usize,
    pub box_size: usize,
    pub box_align: usize,
    pub payload: usize,
    pub side_addr: usize,
    pub edges: BTreeMap<u32, ObjId>, // alive Edge structs that hold a Cc (slots, pins, captured)
    pub leaked_edges: bool,          // owner is gone but these edges were never dropped: permanent roots
    pub leaked_at_op: u32,           // ... from the operation after the one in which the owner was destroyed
    pub stored_weaks: Vec<Option<ObjId>>,
    pub self_weak: bool,
    pub fin_calls: u32,
    pub fin_flag: bool, // model of the crate's "already finalized" flag
    pub tainted: bool,
    pub zero_in_collection: bool,
    pub bulk_strong: u32,
    pub bulk_weak: u32,
    pub slack_strong: u32, // strong pointers leaked by an unwound call (observed, tainted objects only)
    pub map: Option<ObjId>,   // Node -> its cleaner map object
    pub owner: Option<ObjId>, // Map -> owning node
    pub stamp: u64,           // last finalization batch in which it was seen unreachable
    pub pins_next: u32,
    pub created_op: u32,
    pub addr_samples: u32,
    pub downgraded_seen: bool,
    pub collected_seen: bool,
    pub via_cyclic: bool,
    pub was_buffered: bool,
    pub processed_by_collection: bool,
    pub resurrected: bool,
    pub bulk_registered: u32, // Map: no-op actions registered in bulk
    pub bulk_runs: u32,       // Map: how many of them have run
    pub bulk_cleaned: u32,    // Map: how many of the kept cleanables had clean() called
    pub bulk_cleanables: u32, // Map: kept cleanables still alive (each holds a Weak to the map)
}

impl Obj {
    pub fn new(kind: ObjKind, status: Status) -> Obj {
        Obj {
            kind,
            status,
            store_kind: 0,
            nslots: 0,
            box_addr: 0,
            box_size: 0,
            box_align: 0,
            payload: 0,
            side_addr: 0,
            edges: BTreeMap::new(),
            leaked_edges: false,
            leaked_at_op: 0,
            stored_weaks: Vec::new(),
            self_weak: false,
            fin_calls: 0,
            fin_flag: false,
            tainted: false,
            zero_in_collection: false,
            bulk_strong: 0,
            slack_strong: 0,
            bulk_weak: 0,
            map: None,
            owner: None,
            stamp: 0,
            pins_next: 0,
            created_op: 0,
            addr_samples: 0,
            downgraded_seen: false,
            collected_seen: false,
            via_cyclic: false,
            was_buffered: false,
            processed_by_collection: false,
            resurrected: false,
            bulk_registered: 0,
            bulk_runs: 0,
            bulk_cleaned: 0,
            bulk_cleanables: 0,
        }
    }
    pub fn value_alive(&self) -> bool {
        matches!(self.status, Status::Live | Status::Unwrapped)
    }
}

#[derive(Clone, Copy, PartialEq, Eq, Debug)]
pub enum LibCall {
    New,
    NewCyclic,
    Register,
    Collect,
    DropCc,
    EdgeDrop,
    Clean,
    TryUnwrap,
    Upgrade,
    Downgrade,
    Clone,
    Config,
    DropValue,
    Other,
}

#[derive(Clone, Copy, PartialEq, Eq, Debug)]
pub enum FrameKind {
    Lib(LibCall),
    Trace(ObjId),
    Finalize(ObjId),
    Destroy(ObjId),
    DestroyValue(ObjId), // destructor of a value that is not (or no longer) owned by a Cc: ordinary program code
    LeafFinalize(ObjId),
    LeafDrop(ObjId),
    Action(u32),
    Closure(ObjId),
}

#[derive(Clone, Copy, Debug)]
pub struct Frame {
    pub kind: FrameKind,
    pub collector: bool,    // callback invoked by the collector itself
    pub must_be_noop: bool, // Lib frame issued while a collection was in progress
}

pub struct ActionMeta {
    pub map: ObjId,
    pub owner: ObjId,
    pub script: Script,
    pub runs: u32,
    pub registered: bool,
    pub must_have_run: bool,
    pub cleanable_alive: bool,
}

#[derive(Clone, Copy, PartialEq, Eq, Debug)]
pub enum ScriptCtx {
    Fin,
    Drop,
    Act,
    Clo,
}

/// Pure model data.
pub struct Model {
    pub objs: Vec<Obj>,
    pub in_edges: Vec<u32>, // per object: number of alive Edge structs pointing at it (kept in step with `edges`)
    pub root_obj: Vec<Option<ObjId>>,
    pub root_busy: Vec<bool>,
    pub weak_obj: Vec<Option<Option<ObjId>>>, // None = dropped; Some(None) = Weak::new()
    pub bag_obj: Vec<Option<ObjId>>,
    pub cl_action: Vec<Option<u32>>, // cleanable table -> action uid (None = dropped)
    pub actions: Vec<ActionMeta>,
    pub frames: Vec<Frame>,
    pub inflight: Vec<ObjId>,
    pub by_payload: BTreeMap<usize, ObjId>,
    pub by_box: BTreeMap<usize, ObjId>,
    pub by_side: BTreeMap<usize, ObjId>,
    pub unclaimed_boxes: Vec<(usize, usize, usize)>,
    pub unclaimed_sides: Vec<usize>,
    pub expect_side_for: Option<ObjId>,
    pub exec_expected: u64,
    pub batch_id: u64,
    pub batch_open: bool,
    pub refused: Vec<ObjId>,
    pub fault_counters: [u32; FaultKind::COUNT],
    pub faults_fired: Vec<(Fault, String)>,
    pub fired_this_op: bool,
    pub unwound_this_op: bool,
    pub collection_this_op: bool,
    pub expected_unboxed: Option<ObjId>, // a value the harness is dropping outside any box
    pub pending_leaf: Option<ObjId>,     // leaf value being moved into a box (dropped by unwinding if the creation fails)
    pub cfg: Knobs,
    pub cfg_known: bool,
    pub op_index: u32,
    pub store_borrowed: Option<ObjId>,
    pub store_borrow_shared: bool,
    pub buf_model: std::collections::BTreeSet<ObjId>,
    pub buf_exact: bool,
    pub buf_pending: Vec<ObjId>,
    pub dropped_this_pass: Vec<ObjId>,
    pub trace_seen_in_call: bool,
    pub threshold_changed: bool,
    pub buf_at_collection_start: Vec<ObjId>, // members of the buffer (hook walk) when the running collection started
    pub caught_in_callback: bool,
    pub clean_stack: Vec<u32>, // action each running Cleanable::clean() call is entitled to run
    pub touched_this_call: Vec<ObjId>, // objects the running collection / destruction chain has traced, finalized or dropped
    pub tls_roots: Vec<ObjId>, // Ccs parked in a user thread-local (C19)
    pub teardown: bool,
    pub nontrace_since_pass: bool,
    pub pass_count: u32,
    pub leaf_layouts_freed: std::collections::BTreeSet<u8>,
    pub free_paths: std::collections::BTreeSet<u8>, // 0 = reference counting, 1 = collector, 2 = try_unwrap
    pub prog_ops: u32,
    pub fault_op: Option<(u32, u32)>, // (op index, live objects) when the first fault fired
    pub prev_buffer: std::collections::BTreeSet<ObjId>,
    pub last_threshold: usize,
    pub bulk_clean_of: Option<ObjId>, // cleaner map whose kept Cleanables are being clean()ed right now
    pub initial_threshold: usize, // byte threshold of a fresh configuration, read at the start of the run (0 = unknown)
    pub fresh_cfg: Knobs,         // the other settings of that fresh configuration
    pub fault_counters_final: [u32; FaultKind::COUNT],
}

pub struct Tables {
    pub roots: Vec<Option<Box<AnyCc>>>,
    pub weaks: Vec<Option<Box<AnyWeak>>>,
    pub cleanables: Vec<Option<Box<Cleanable>>>,
    pub bag: Vec<Option<AnyVal>>,
    pub bulk_strong: BTreeMap<ObjId, Vec<AnyCc>>,
    pub bulk_weak: BTreeMap<ObjId, Vec<AnyWeak>>,
    pub bulk_cleanables: BTreeMap<ObjId, Vec<Cleanable>>,
}

#[derive(Clone, Debug)]
pub struct Violation {
    pub property: &'static str,
    pub oracle: &'static str,
    pub msg: String,
    pub op_index: u32,
    pub frames: String,
}

pub struct World {
    pub m: RefCell<Model>,
    pub t: RefCell<Tables>,
    pub faults: Vec<Fault>,
    pub obs: RefCell<Vec<(u8, usize, usize, usize)>>,
    pub dead: Cell<bool>,
    pub violation: RefCell<Option<Violation>>,
    pub stats: RefCell<Stats>,
    pub hash: Cell<u64>,
    pub check_prop: &'static str, // property of the running check (attribution preference)
    pub trace_log: RefCell<Option<Vec<String>>>, // verbose event log (replay -v)
    pub exact_buf_profile: bool,
    pub saved_cfg: RefCell<Option<(crate::compat::SavedConfig, Knobs)>>,
    pub thread_tag: std::cell::Cell<u32>,
    pub last_pred: RefCell<String>,
}

thread_local! {
    static WORLD: Cell<*const World> = const { Cell::new(std::ptr::null()) };
}

pub fn set_world(w: *const World) {
    let _ = WORLD.try_with(|c| c.set(w));
}

#[inline]
pub fn world<'a>() -> Option<&'a World> {
    let p = WORLD.try_with(|c| c.get()).unwrap_or(std::ptr::null());
    if p.is_null() {
        None
    } else {
        Some(unsafe { &*p })
    }
}

/// Panic payload of injected faults.
pub struct Injected(pub FaultKind, pub u32);
/// Panic payload for harness-internal inconsistencies (never a verdict).
pub struct HarnessError(pub String);

pub fn harness_error(msg: String) -> ! {
    eprintln!("HARNESS-ERROR: {}", msg);
    std::process::exit(2);
}

/// Oracle -> properties it is attributed to (first = primary).
pub fn oracle_props(oracle: &str) -> &'static [&'static str] {
    let base = oracle.split('.').next().unwrap_or(oracle);
    match base {
        "O-MEM" => &["C01", "C03", "C07"],
        "O-REACH" => &["C01", "C06", "C07"],
        "O-ALLOC" => &["C03", "C07"],
        "O-DROP1" => &["C03", "C14", "C07"],
        "O-FREED" => &["C03", "C04"],
        "O-COUNT" => &["C04", "C16"],
        "O-RC" => &["C04"],
        "O-FIN" => &["C05", "C06", "C07"],
        "O-COMPLETE" => &["C02", "C06", "C17"],
        "O-BYTES" => &["C11", "C02"],
        "O-TERM" => &["C06"],
        "O-CONTAIN" => &["C07"],
        "O-UPG" => &["C08", "C07"],
        "O-WCOUNT" => &["C09"],
        "O-SIDE" => &["C09", "C03"],
        "O-CLEAN" => &["C10"],
        "O-BUF" => &["C11"],
        "O-EXEC" => &["C11", "C12"],
        "O-PHASE" => &["C12"],
        "O-NONEST" => &["C12"],
        "O-UNWRAP" => &["C13"],
        "O-CYCLIC" => &["C14"],
        "O-TRIGGER" => &["C15"],
        "O-THRESH" => &["C15"],
        "O-SAT" => &["C16"],
        "O-VISIT" => &["C17"],
        "O-THREAD" => &["C19"],
        "O-ADDR" => &["C20"],
        "O-FWD" => &["C20"],
        _ => &["C01"],
    }
}

impl World {
    pub fn new(knobs: Knobs, faults: Vec<Fault>, check_prop: &'static str, exact_buf: bool) -> World {
        World {
            m: RefCell::new(Model {
                objs: Vec::new(),
                in_edges: Vec::new(),
                root_obj: Vec::new(),
                root_busy: Vec::new(),
                weak_obj: Vec::new(),
                bag_obj: Vec::new(),
                cl_action: Vec::new(),
                actions: Vec::new(),
                frames: Vec::new(),
                inflight: Vec::new(),
                by_payload: BTreeMap::new(),
                by_box: BTreeMap::new(),
                by_side: BTreeMap::new(),
                unclaimed_boxes: Vec::new(),
                unclaimed_sides: Vec::new(),
                expect_side_for: None,
                exec_expected: 0,
                batch_id: 1,
                batch_open: false,
                refused: Vec::new(),
                fault_counters: [0; FaultKind::COUNT],
                faults_fired: Vec::new(),
                fired_this_op: false,
                unwound_this_op: false,
                collection_this_op: false,
                expected_unboxed: None,
                pending_leaf: None,
                cfg: knobs,
                cfg_known: false,
                op_index: 0,
                store_borrowed: None,
                store_borrow_shared: false,
                buf_model: Default::default(),
                buf_exact: exact_buf,
                buf_pending: Vec::new(),
                dropped_this_pass: Vec::new(),
                trace_seen_in_call: false,
                threshold_changed: false,
                buf_at_collection_start: Vec::new(),
                caught_in_callback: false,
                clean_stack: Vec::new(),
                touched_this_call: Vec::new(),
                tls_roots: Vec::new(),
                teardown: false,
                nontrace_since_pass: false,
                pass_count: 0,
                leaf_layouts_freed: Default::default(),
                free_paths: Default::default(),
                prog_ops: 0,
                fault_op: None,
                prev_buffer: Default::default(),
                last_threshold: 0,
                bulk_clean_of: None,
                initial_threshold: 0,
                fresh_cfg: Knobs { auto: true, buffered: 0, permille: 100 },
                fault_counters_final: [0; FaultKind::COUNT],
            }),
            t: RefCell::new(Tables {
                roots: Vec::new(),
                weaks: Vec::new(),
                cleanables: Vec::new(),
                bag: Vec::new(),
                bulk_strong: BTreeMap::new(),
                bulk_weak: BTreeMap::new(),
                bulk_cleanables: BTreeMap::new(),
            }),
            faults,
            obs: RefCell::new(Vec::new()),
            dead: Cell::new(false),
            violation: RefCell::new(None),
            stats: RefCell::new(Stats::default()),
            hash: Cell::new(0xcbf2_9ce4_8422_2325),
            check_prop,
            trace_log: RefCell::new(None),
            exact_buf_profile: exact_buf,
            saved_cfg: RefCell::new(None),
            thread_tag: std::cell::Cell::new(u32::MAX),
            last_pred: RefCell::new(String::new()),
        }
    }

    // ------------------------------------------------------------------ logging / hashing

    #[inline]
    pub fn ev(&self, code: u64, a: u64, b: u64) {
        let mut h = self.hash.get();
        for x in [code, a, b] {
            h ^= x.wrapping_add(0x9E37_79B9_7F4A_7C15);
            h = h.wrapping_mul(0x0000_0100_0000_01B3).rotate_left(23);
        }
        self.hash.set(h);
        if let Some(log) = self.trace_log.borrow_mut().as_mut() {
            log.push(format!("{} {} {}", ev_name(code), a as i64, b as i64));
        }
    }

    // ------------------------------------------------------------------ violations

    pub fn fail(&self, oracle: &'static str, msg: String) {
        if self.dead.get() {
            return;
        }
        self.dead.set(true);
        let props = oracle_props(oracle);
        // in the multi-thread profile every oracle is a per-thread model: a mismatch means interference (C19)
        let property = if self.check_prop == "C19" || props.contains(&self.check_prop) { self.check_prop } else { props[0] };
        let (op_index, frames) = match self.m.try_borrow() {
            Ok(m) => (m.op_index, format!("{:?}", m.frames.iter().map(|f| f.kind).collect::<Vec<_>>())),
            Err(_) => (0, String::from("?")),
        };
        let msg = if self.thread_tag.get() != u32::MAX { format!("[thread {}] {}", self.thread_tag.get(), msg) } else { msg };
        let v = Violation { property, oracle, msg, op_index, frames };
        // Printed at once: the process may not survive a corrupted heap.
        println!("@@VIOLATION property={} oracle={} op={} msg={}", v.property, v.oracle, v.op_index, v.msg.replace('\n', " "));
        use std::io::Write;
        let _ = std::io::stdout().flush();
        *self.violation.borrow_mut() = Some(v);
    }

    /// A violation after which no further callback may safely run (e.g. drop of uninitialised memory).
    pub fn fail_fatal(&self, oracle: &'static str, msg: String) -> ! {
        self.fail(oracle, msg);
        println!("@@FATAL");
        use std::io::Write;
        let _ = std::io::stdout().flush();
        std::process::exit(3);
    }

    // ------------------------------------------------------------------ frames

    pub fn in_collection(&self) -> bool {
        self.m.borrow().frames.iter().any(|f| f.collector)
    }

    pub fn nearest_lib(m: &Model) -> Option<LibCall> {
        m.frames.iter().rev().find_map(|f| if let FrameKind::Lib(l) = f.kind { Some(l) } else { None })
    }

    /// Is a callback entered now invoked directly by the collector?
    pub fn parent_is_collector(m: &Model) -> bool {
        match m.frames.last() {
            Some(Frame { kind: FrameKind::Lib(l), must_be_noop, .. }) => {
                let _ = must_be_noop;
                matches!(l, LibCall::Collect | LibCall::New | LibCall::NewCyclic | LibCall::Register)
            }
            _ => false,
        }
    }

    pub fn finalizer_innermost(m: &Model) -> bool {
        // innermost callback frame (ignoring lib frames) is a finalizer
        for f in m.frames.iter().rev() {
            match f.kind {
                FrameKind::Lib(_) => continue,
                FrameKind::Finalize(_) | FrameKind::LeafFinalize(_) => return true,
                _ => return false,
            }
        }
        false
    }

    pub fn any_finalizer_frame(m: &Model) -> bool {
        m.frames.iter().any(|f| matches!(f.kind, FrameKind::Finalize(_) | FrameKind::LeafFinalize(_)))
    }

    pub fn in_fin_or_drop(m: &Model) -> bool {
        m.frames.iter().any(|f| matches!(f.kind, FrameKind::Finalize(_) | FrameKind::LeafFinalize(_) | FrameKind::Destroy(_) | FrameKind::LeafDrop(_)))
    }

    // ------------------------------------------------------------------ mirror queries

    /// Number of Cc pointers to `o` that exist according to the mirror.
    pub fn count(m: &Model, o: ObjId) -> u32 {
        let mut n = m.root_obj.iter().filter(|r| **r == Some(o)).count() as u32;
        n += m.tls_roots.iter().filter(|r| **r == o).count() as u32;
        n += m.objs[o as usize].bulk_strong;
        n += m.in_edges.get(o as usize).copied().unwrap_or(0);
        // pointers leaked by an unwound call (only ever non-zero for objects that call involved)
        n += m.objs[o as usize].slack_strong;
        n
    }

    /// Objects reachable from program-held strong pointers through all edges of undropped values.
    pub fn reach(m: &Model) -> Vec<bool> {
        World::reach_ext(m, false)
    }

    /// `with_leaks`: pointers that were leaked (ManuallyDrop positions of destroyed owners) are not held by the
    /// program, but they legitimately keep their targets from ever being reclaimed: completeness oracles count them.
    pub fn reach_ext(m: &Model, with_leaks: bool) -> Vec<bool> {
        let n = m.objs.len();
        let mut r = vec![false; n];
        let mut stack: Vec<ObjId> = Vec::new();
        let mut push = |o: ObjId, r: &mut Vec<bool>, stack: &mut Vec<ObjId>| {
            if !r[o as usize] {
                r[o as usize] = true;
                stack.push(o);
            }
        };
        for o in m.root_obj.iter().flatten() {
            push(*o, &mut r, &mut stack);
        }
        for o in m.bag_obj.iter().flatten() {
            push(*o, &mut r, &mut stack);
        }
        for o in m.tls_roots.iter() {
            push(*o, &mut r, &mut stack);
        }
        for (i, ob) in m.objs.iter().enumerate() {
            if ob.bulk_strong > 0 || ob.status == Status::UnderConstruction {
                push(i as ObjId, &mut r, &mut stack);
            }
            if with_leaks && ob.leaked_edges {
                // Ccs inside a ManuallyDrop position of a dropped owner exist forever: they keep alive what is
                // still alive (a leaked pointer to an already reclaimed object is merely dangling, never used)
                for t in ob.edges.values() {
                    if m.objs[*t as usize].value_alive() {
                        push(*t, &mut r, &mut stack);
                    }
                }
            }
        }
        while let Some(o) = stack.pop() {
            let ob = &m.objs[o as usize];
            let follow = matches!(ob.status, Status::Live | Status::Unwrapped | Status::UnderConstruction | Status::Pending);
            if !follow {
                continue;
            }
            for t in ob.edges.values() {
                push(*t, &mut r, &mut stack);
            }
            if let Some(mp) = ob.map {
                push(mp, &mut r, &mut stack);
            }
        }
        r
    }

    /// Objects reachable from `from` through edges of undropped values (including `from`).
    pub fn reach_from(m: &Model, from: ObjId) -> Vec<ObjId> {
        let mut seen = vec![false; m.objs.len()];
        let mut out = Vec::new();
        let mut stack = vec![from];
        seen[from as usize] = true;
        while let Some(o) = stack.pop() {
            out.push(o);
            let ob = &m.objs[o as usize];
            for t in ob.edges.values().chain(ob.map.iter()) {
                if !seen[*t as usize] {
                    seen[*t as usize] = true;
                    stack.push(*t);
                }
            }
        }
        out
    }

    /// Number of Weak pointers to `o` that exist according to the mirror (cleanables excluded).
    pub fn weak_count_model(m: &Model, o: ObjId) -> u32 {
        let mut n = m.weak_obj.iter().filter(|w| **w == Some(Some(o))).count() as u32;
        n += m.objs[o as usize].bulk_weak;
        for p in m.objs.iter() {
            if matches!(p.status, Status::Live | Status::Unwrapped | Status::Destroying | Status::Pending | Status::UnderConstruction) || p.leaked_value() {
                n += p.stored_weaks.iter().filter(|t| **t == Some(o)).count() as u32;
            }
        }
        // the Weak a node created by new_cyclic keeps to itself lives as long as the node's value
        let me = &m.objs[o as usize];
        if me.self_weak && matches!(me.status, Status::Live | Status::Unwrapped | Status::Destroying) {
            n += 1;
        }
        n
    }

    pub fn stamp_unreachable(&self) {
        let mut m = self.m.borrow_mut();
        let r = World::reach(&m);
        let b = m.batch_id;
        for (i, ob) in m.objs.iter_mut().enumerate() {
            if !r[i] {
                ob.stamp = b;
            }
        }
    }

    /// Forgets every pointer still held by the tables (they belong to a thread that is gone).
    pub fn leak_tables(&self) {
        let mut t = self.t.borrow_mut();
        for r in t.roots.drain(..) {
            std::mem::forget(r);
        }
        for w in t.weaks.drain(..) {
            std::mem::forget(w);
        }
        for c in t.cleanables.drain(..) {
            std::mem::forget(c);
        }
        for b in t.bag.drain(..) {
            std::mem::forget(b);
        }
        std::mem::forget(std::mem::take(&mut t.bulk_strong));
        std::mem::forget(std::mem::take(&mut t.bulk_weak));
        std::mem::forget(std::mem::take(&mut t.bulk_cleanables));
    }

    pub fn new_obj(&self, kind: ObjKind, status: Status) -> ObjId {
        let mut m = self.m.borrow_mut();
        let id = m.objs.len() as ObjId;
        let mut o = Obj::new(kind, status);
        o.created_op = m.op_index;
        m.objs.push(o);
        m.in_edges.push(0);
        id
    }

    // ------------------------------------------------------------------ handle resolution (total)

    /// Resolves an operand to an index of the root table holding a live, non-busy handle.
    pub fn resolve_root(&self, n: i64, pred: impl Fn(&Model, ObjId) -> bool) -> Option<usize> {
        let m = self.m.borrow();
        let ok = |i: usize| match m.root_obj[i] {
            Some(o) => !m.root_busy[i] && pred(&m, o),
            None => false,
        };
        if n >= 0 && (n as usize) < m.root_obj.len() && ok(n as usize) {
            return Some(n as usize);
        }
        let live: Vec<usize> = (0..m.root_obj.len()).filter(|i| ok(*i)).collect();
        if live.is_empty() {
            None
        } else {
            Some(live[(n.rem_euclid(live.len() as i64)) as usize])
        }
    }

    pub fn resolve_weak(&self, n: i64) -> Option<usize> {
        let m = self.m.borrow();
        if n >= 0 && (n as usize) < m.weak_obj.len() && m.weak_obj[n as usize].is_some() {
            return Some(n as usize);
        }
        let live: Vec<usize> = (0..m.weak_obj.len()).filter(|i| m.weak_obj[*i].is_some()).collect();
        if live.is_empty() {
            None
        } else {
            Some(live[(n.rem_euclid(live.len() as i64)) as usize])
        }
    }

    pub fn resolve_cleanable(&self, n: i64) -> Option<usize> {
        let m = self.m.borrow();
        if n >= 0 && (n as usize) < m.cl_action.len() && m.cl_action[n as usize].is_some() {
            return Some(n as usize);
        }
        let live: Vec<usize> = (0..m.cl_action.len()).filter(|i| m.cl_action[*i].is_some()).collect();
        if live.is_empty() {
            None
        } else {
            Some(live[(n.rem_euclid(live.len() as i64)) as usize])
        }
    }

    pub fn resolve_bag(&self, n: i64) -> Option<usize> {
        let m = self.m.borrow();
        let live: Vec<usize> = (0..m.bag_obj.len()).filter(|i| m.bag_obj[*i].is_some()).collect();
        if live.is_empty() {
            None
        } else {
            Some(live[(n.rem_euclid(live.len() as i64)) as usize])
        }
    }

    pub fn is_node(m: &Model, o: ObjId) -> bool {
        m.objs[o as usize].kind == ObjKind::Node
    }

    /// Stable pointer to a root handle (the Box keeps it in place while the entry is occupied).
    pub fn root_ptr(&self, i: usize) -> *const AnyCc {
        let t = self.t.borrow();
        &**t.roots[i].as_ref().expect("root handle present") as *const AnyCc
    }

    pub fn push_root(&self, cc: AnyCc, o: ObjId) -> usize {
        let mut t = self.t.borrow_mut();
        let mut m = self.m.borrow_mut();
        t.roots.push(Some(Box::new(cc)));
        m.root_obj.push(Some(o));
        m.root_busy.push(false);
        if m.frames.iter().any(|f| f.collector && matches!(f.kind, FrameKind::Finalize(_))) {
            m.objs[o as usize].resurrected = true; // made reachable again by a finalizer of a running collection
        }
        t.roots.len() - 1
    }

    pub fn push_weak(&self, w: AnyWeak, o: Option<ObjId>) -> usize {
        let mut t = self.t.borrow_mut();
        let mut m = self.m.borrow_mut();
        t.weaks.push(Some(Box::new(w)));
        m.weak_obj.push(Some(o));
        t.weaks.len() - 1
    }

    /// Removes a root handle from the table and the mirror (the caller then drops / consumes it).
    pub fn take_root(&self, i: usize) -> (AnyCc, ObjId) {
        let mut t = self.t.borrow_mut();
        let mut m = self.m.borrow_mut();
        let cc = *t.roots[i].take().expect("root handle present");
        let o = m.root_obj[i].take().expect("root obj present");
        (cc, o)
    }
}

impl Obj {
    pub fn leaked_value(&self) -> bool {
        false
    }
}

impl Model {
    /// owner.edges[key] = target, keeping the in-degree table in step. Returns the previous target.
    pub fn edge_insert(&mut self, owner: ObjId, key: u32, target: ObjId) -> Option<ObjId> {
        if self.in_edges.len() < self.objs.len() {
            self.in_edges.resize(self.objs.len(), 0);
        }
        let old = self.objs[owner as usize].edges.insert(key, target);
        if let Some(o) = old {
            self.in_edges[o as usize] -= 1;
        }
        self.in_edges[target as usize] += 1;
        old
    }
    pub fn edge_remove(&mut self, owner: ObjId, key: u32) -> Option<ObjId> {
        let old = self.objs[owner as usize].edges.remove(&key);
        if let Some(o) = old {
            self.in_edges[o as usize] -= 1;
        }
        old
    }
}

pub struct BusyGuard<'a> {
    pub w: &'a World,
    pub idx: usize,
}
impl<'a> Drop for BusyGuard<'a> {
    fn drop(&mut self) {
        if let Ok(mut m) = self.w.m.try_borrow_mut() {
            if self.idx < m.root_busy.len() {
                m.root_busy[self.idx] = false;
            }
        }
    }
}
impl World {
    pub fn busy(&self, idx: usize) -> BusyGuard<'_> {
        self.m.borrow_mut().root_busy[idx] = true;
        BusyGuard { w: self, idx }
    }
}

pub fn ev_name(code: u64) -> &'static str {
    match code {
        1 => "op",
        2 => "trace",
        3 => "finalize",
        4 => "drop",
        5 => "destroyed",
        6 => "edge-drop",
        7 => "action",
        8 => "closure",
        9 => "leaf-finalize",
        10 => "leaf-drop",
        11 => "fault",
        12 => "result",
        13 => "mini",
        14 => "created",
        15 => "unwound",
        16 => "upgrade",
        17 => "collect",
        _ => "ev",
    }
}
