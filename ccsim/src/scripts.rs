//! Interpreter of callback scripts (finalizers, destructors, cleaning actions, new_cyclic closures)
//! and the shared upgrade routine with its oracle (C08).

#[allow(unused_imports)]
use rust_cc::*;

use crate::exec::*;
use crate::leaves::*;
use crate::node::*;
use crate::program::*;
use crate::world::*;
use crate::{map_cc, weak_to_cc, with_cc};

/// Marker: an upgrade at the counter limit was refused (returned None) instead of panicking.
pub struct RefusedAtLimit;

impl World {
    /// `Weak::upgrade` with the C08 oracle. `target`: the object the weak was made from (None = Weak::new()).
    /// Returns the handle index of the parked result, if any.
    pub fn upgrade_weak(&self, wptr: *const AnyWeak, target: Option<ObjId>, park: bool) -> Option<usize> {
        if !crate::compat::HAS_WEAK {
            return None;
        }
        let top = self.m.borrow().frames.is_empty();
        if let Some(o) = target {
            let at_limit = {
                let m = self.m.borrow();
                m.objs[o as usize].status == Status::Live && World::count(&m, o) >= MAX_STRONG
            };
            if at_limit {
                // at the limit an upgrade that would otherwise succeed panics; one that is refused anyway returns None
                let mut refused = false;
                self.expect_limit_panic(o, "upgrade", || {
                    match self.lib(LibCall::Upgrade, || weak_to_cc!(unsafe { &*wptr }, x => x.upgrade())) {
                        Some(cc) => std::mem::forget(cc), // reported by expect_limit_panic as "succeeded"
                        None => refused = true,
                    }
                    if refused {
                        std::panic::panic_any(RefusedAtLimit);
                    }
                });
                return None;
            }
        }
        let r = self.lib(LibCall::Upgrade, || weak_to_cc!(unsafe { &*wptr }, x => x.upgrade()));
        self.ev(16, target.map_or(u64::MAX, |t| t as u64), r.is_some() as u64);
        match r {
            Some(cc) => {
                let Some(o) = target else {
                    self.fail("O-UPG.new", "a Weak created by Weak::new() upgraded".to_string());
                    std::mem::forget(cc);
                    return None;
                };
                let (st, payload, kind) = {
                    let m = self.m.borrow();
                    let ob = &m.objs[o as usize];
                    (ob.status, ob.payload, ob.kind)
                };
                if st != Status::Live {
                    self.fail("O-UPG.dead", format!("upgrade returned a pointer to object {} whose value is {:?}", o, st));
                    std::mem::forget(cc);
                    return None;
                }
                if payload_addr(&cc) != payload {
                    let other = self.m.borrow().by_payload.get(&payload_addr(&cc)).copied();
                    self.fail("O-UPG.alloc", format!("upgrade of a Weak to object {} returned a pointer to another allocation ({:#x}, which is object {:?}; expected {:#x})", o, payload_addr(&cc), other, payload));
                    std::mem::forget(cc);
                    return None;
                }
                if kind == ObjKind::Node {
                    if let AnyCc::N(c) = &cc {
                        if !c.canary_ok() || c.head.id != o {
                            self.fail("O-MEM.upgrade", format!("upgrade gave access to object {} whose value is not intact", o));
                            std::mem::forget(cc);
                            return None;
                        }
                    }
                }
                {
                    let mut m = self.m.borrow_mut();
                    m.buf_model.remove(&o);
                    m.objs[o as usize].zero_in_collection = false;
                }
                self.stats.borrow_mut().bump(if top { "upgrade_ok_top" } else { "upgrade_ok_in_callback" });
                let idx = self.push_root(cc, o);
                if park {
                    Some(idx)
                } else {
                    self.drop_root(idx);
                    None
                }
            }
            None => {
                if let Some(o) = target {
                    let mut m = self.m.borrow_mut();
                    let ob = &m.objs[o as usize];
                    let alive = ob.status == Status::Live && World::count(&m, o) >= 1 && !ob.tainted;
                    if alive {
                        if top {
                            drop(m);
                            self.fail("O-UPG.refused", format!("upgrade returned None at top level although object {} is alive and has strong pointers", o));
                            return None;
                        }
                        m.refused.push(o);
                    }
                }
                self.stats.borrow_mut().bump(if top { "upgrade_none_top" } else { "upgrade_none_in_callback" });
                None
            }
        }
    }

    /// `Cc::new_cyclic` from a destructor that runs because the thread is unwinding: an object outside the mirror,
    /// created, checked and released on the spot (automatic collection switched off meanwhile).
    #[cfg(feature = "weak")]
    fn unwinding_cyclic_probe(&self) {
        use crate::compat::*;
        let auto_was = cfg_read().map(|c| c.0);
        if auto_was == Some(true) {
            cfg_set_auto(false);
        }
        let r = std::panic::catch_unwind(std::panic::AssertUnwindSafe(|| {
            let mut saved: Option<rust_cc::weak::Weak<Plain>> = None;
            let cc = Cc::new_cyclic(|w| {
                saved = Some(w.clone());
                Plain(77)
            });
            let w = saved.expect("closure ran");
            let up = w.upgrade();
            let ok = cc.strong_count() == if up.is_some() { 2 } else { 1 } && up.as_ref().map_or(false, |u| Cc::ptr_eq(u, &cc)) && cc.0 == 77 && w.strong_count() >= 1;
            drop(up);
            drop(cc);
            let dead = w.upgrade().is_none() && w.strong_count() == 0;
            drop(w);
            ok && dead
        }));
        if auto_was == Some(true) {
            cfg_set_auto(true);
        }
        self.stats.borrow_mut().bump("new_cyclic_while_unwinding");
        match r {
            Ok(true) => {}
            Ok(false) => self.fail("O-CYCLIC.unwinding", "a Cc returned by new_cyclic while the thread was unwinding is not alive / its Weak clones do not upgrade to it".to_string()),
            Err(_) => self.fail("O-CYCLIC.unwinding", "new_cyclic panicked although its closure did not (called while the thread was unwinding)".to_string()),
        }
        self.sync();
    }
    #[cfg(not(feature = "weak"))]
    fn unwinding_cyclic_probe(&self) {}

    fn child_ptr(&self, node: &Node, slot: i64) -> Option<(*const AnyCc, ObjId, u32)> {
        let id = node.head.id;
        let st = node.store.try_borrow().ok()?;
        let mut edges = Vec::new();
        st.walk(&mut edges);
        if edges.is_empty() {
            return None;
        }
        let s = slot.rem_euclid(edges.len() as i64) as usize;
        let key = KEY_SLOT | s as u32;
        let cc = edges[s].get()?;
        let target = *self.m.borrow().objs[id as usize].edges.get(&key)?;
        Some((cc as *const AnyCc, target, key))
    }

    /// Dereferences every child of `node` and checks that it is the intact value the mirror expects.
    pub fn read_children(&self, node: &Node) {
        let id = node.head.id;
        let Ok(st) = node.store.try_borrow() else { return };
        let mut edges = Vec::new();
        st.walk(&mut edges);
        for (s, e) in edges.iter().enumerate() {
            let key = KEY_SLOT | s as u32;
            let want = self.m.borrow().objs[id as usize].edges.get(&key).copied();
            match (e.get(), want) {
                (None, None) => {}
                (Some(cc), Some(t)) => {
                    if !self.check_value(cc, t, "read through a field by a callback") {
                        return;
                    }
                }
                (a, b) => harness_error(format!("slot {} of {}: real {} vs mirror {:?}", s, id, a.is_some(), b)),
            }
        }
        self.stats.borrow_mut().bump("callback_read_neighbours");
    }

    /// Deref `cc` and check it is object `t`, alive and intact. Returns false (and fails) otherwise.
    pub fn check_value(&self, cc: &AnyCc, t: ObjId, how: &str) -> bool {
        let (st, kind, payload) = {
            let m = self.m.borrow();
            let ob = &m.objs[t as usize];
            (ob.status, ob.kind, ob.payload)
        };
        if !matches!(st, Status::Live) {
            if self.m.borrow().objs[t as usize].tainted && st != Status::Dropped && st != Status::Destroying {
                return true;
            }
            self.fail("O-MEM.deref-dead", format!("object {} {} is {:?}", t, how, st));
            return false;
        }
        let addr = payload_addr(cc);
        if addr != payload {
            self.fail("O-ADDR.stable", format!("object {} {}: Deref address {:#x} differs from the address at creation {:#x}", t, how, addr, payload));
            return false;
        }
        // formatting forwards to the value whatever the collector is doing with the allocation right now
        let same_debug = with_cc!(cc, c => format!("{:?}", c) == format!("{:?}", &**c));
        if !same_debug {
            self.fail("O-FWD.phase", format!("object {} {}: Debug on the Cc differs from Debug on its value", t, how));
            return false;
        }
        let ok = match cc {
            AnyCc::N(c) => c.canary_ok() && c.head.id == t,
            AnyCc::KI(_) | AnyCc::KF(_) => true,
            other => {
                let _ = kind;
                with_leaf_bytes(other, |b| check_pattern(b, t))
            }
        };
        if !ok {
            self.fail("O-MEM.deref-garbage", format!("object {} {} does not hold its value (dropped, freed or overwritten)", t, how));
            return false;
        }
        true
    }

    pub fn run_script(&self, ctx: ScriptCtx, node: Option<&Node>, script: &[Mini]) {
        if std::thread::panicking() {
            // a callback reached by unwinding (e.g. the destructor of a value whose creation failed) stays passive:
            // a second panic would abort the process, and the harness frames are not yet unwound.
            // One self-contained probe is allowed: new_cyclic must work while the thread is unwinding (C14).
            if ctx == ScriptCtx::Drop && script.iter().any(|m| m.code == MiniCode::AllocCyclic) {
                self.unwinding_cyclic_probe();
            }
            return;
        }
        for mini in script {
            if self.dead.get() {
                return;
            }
            self.stats.borrow_mut().steps += 1;
            self.ev(13, mini.code as u64, mini.a[0] as u64);
            self.run_mini(ctx, node, mini);
            if ctx == ScriptCtx::Fin && !self.dead.get() {
                self.stamp_unreachable();
            }
        }
    }

    fn run_mini(&self, ctx: ScriptCtx, node: Option<&Node>, mini: &Mini) {
        use MiniCode as M;
        let a = mini.a;
        match mini.code {
            M::Read => {
                if let Some(n) = node {
                    self.read_children(n);
                }
            }
            M::ClearSlot => {
                if ctx != ScriptCtx::Fin {
                    return;
                }
                let Some(n) = node else { return };
                let id = n.head.id;
                let taken = {
                    let Ok(mut st) = n.store.try_borrow_mut() else { return };
                    let mut edges = Vec::new();
                    st.walk_mut(&mut edges);
                    if edges.is_empty() {
                        return;
                    }
                    let s = a[0].rem_euclid(edges.len() as i64) as usize;
                    edges[s].take().map(|cc| (cc, KEY_SLOT | s as u32))
                };
                if let Some((cc, key)) = taken {
                    let t = self.m.borrow_mut().edge_remove(id, key).expect("mirror edge");
                    self.stats.borrow_mut().bump("finalizer_dropped_field");
                    self.drop_cc(cc, t, "a field cleared by a finalizer");
                }
            }
            M::ChildToRoot => {
                if ctx != ScriptCtx::Fin {
                    return;
                }
                let Some(n) = node else { return };
                if let Some((p, t, _)) = self.child_ptr(n, a[0]) {
                    if World::count(&self.m.borrow(), t) >= MAX_STRONG {
                        return;
                    }
                    let c = self.lib(LibCall::Clone, || map_cc!(unsafe { &*p }, c => c.clone()));
                    self.m.borrow_mut().buf_model.remove(&t);
                    self.push_root(c, t);
                    self.stats.borrow_mut().bump("finalizer_cloned_into_globals");
                }
            }
            M::GrandToRoot => {
                if ctx != ScriptCtx::Fin {
                    return;
                }
                let Some(n) = node else { return };
                if let Some((p, t, _)) = self.child_ptr(n, a[0]) {
                    if let AnyCc::N(c) = unsafe { &*p } {
                        if !self.check_value(unsafe { &*p }, t, "read through a field by a finalizer") {
                            return;
                        }
                        let child: &Node = c;
                        if let Some((p2, t2, _)) = self.child_ptr(child, a[1]) {
                            if World::count(&self.m.borrow(), t2) >= MAX_STRONG {
                                return;
                            }
                            let c2 = self.lib(LibCall::Clone, || map_cc!(unsafe { &*p2 }, c => c.clone()));
                            self.m.borrow_mut().buf_model.remove(&t2);
                            self.push_root(c2, t2);
                            self.stats.borrow_mut().bump("finalizer_cloned_into_globals");
                        }
                    }
                }
            }
            M::ChildToNode => {
                if ctx != ScriptCtx::Fin {
                    return;
                }
                let Some(n) = node else { return };
                let Some((p, t, _)) = self.child_ptr(n, a[0]) else { return };
                if World::count(&self.m.borrow(), t) >= MAX_STRONG {
                    return;
                }
                let Some(hi) = self.resolve_root(a[1], |m, o| World::is_node(m, o) && m.objs[o as usize].status == Status::Live && m.objs[o as usize].nslots > 0) else { return };
                let c = self.lib(LibCall::Clone, || map_cc!(unsafe { &*p }, c => c.clone()));
                self.m.borrow_mut().buf_model.remove(&t);
                self.stats.borrow_mut().bump("finalizer_stored_into_live_node");
                self.set_slot_of_root(hi, a[2], c, t);
            }
            M::SelfWeakToRoot => {
                let Some(n) = node else { return };
                if ctx == ScriptCtx::Act || ctx == ScriptCtx::Clo {
                    return;
                }
                let id = n.head.id;
                let p = match n.self_weak.try_borrow() {
                    Ok(sw) => match sw.as_ref() {
                        Some(w) => w as *const AnyWeak,
                        None => return,
                    },
                    Err(_) => return,
                };
                self.upgrade_weak(p, Some(id), true);
            }
            M::WeakToRoot | M::WeakToDrop => {
                let park = mini.code == M::WeakToRoot;
                if !park && ctx == ScriptCtx::Drop {
                    return;
                }
                let mut done = false;
                if let Some(n) = node {
                    let id = n.head.id;
                    let got = match n.weaks.try_borrow() {
                        Ok(ws) if !ws.is_empty() => {
                            let i = a[0].rem_euclid(ws.len() as i64) as usize;
                            Some((&ws[i] as *const AnyWeak, i))
                        }
                        _ => None,
                    };
                    if let Some((p, i)) = got {
                        let t = self.m.borrow().objs[id as usize].stored_weaks.get(i).copied().flatten();
                        let tt = self.m.borrow().objs[id as usize].stored_weaks.get(i).is_some();
                        if tt {
                            self.upgrade_weak(p, t, park);
                            done = true;
                        }
                    }
                }
                if !done {
                    if let Some(wi) = self.resolve_weak(a[0]) {
                        let (p, t) = {
                            let tb = self.t.borrow();
                            (&**tb.weaks[wi].as_ref().unwrap() as *const AnyWeak, self.m.borrow().weak_obj[wi].unwrap())
                        };
                        self.upgrade_weak(p, t, park);
                    }
                }
            }
            M::DropRoot => {
                if ctx == ScriptCtx::Drop {
                    return;
                }
                if let Some(i) = self.resolve_root(a[0], |_, _| true) {
                    self.stats.borrow_mut().bump("callback_dropped_global");
                    self.drop_root(i);
                }
            }
            M::Alloc | M::AllocDrop => {
                let kind = a[0].rem_euclid(STORE_KINDS.len() as i64) as u16;
                let idx = self.create_node(&NodeTmpl { store: kind, fin: vec![], drop: vec![] });
                self.stats.borrow_mut().bump("callback_allocated");
                if mini.code == M::AllocDrop && ctx != ScriptCtx::Drop {
                    self.drop_root(idx);
                }
            }
            M::AllocCyclic => {
                if ctx == ScriptCtx::Clo {
                    return;
                }
                let kind = a[0].rem_euclid(STORE_KINDS.len() as i64) as u16;
                self.create_node_cyclic(&NodeTmpl { store: kind, fin: vec![], drop: vec![] }, &vec![Mini::new(MiniCode::SelfWeak, &[])]);
                self.stats.borrow_mut().bump("callback_allocated");
            }
            M::Collect => self.collect(),
            M::CollectCatch => {
                // the callback catches a panic of the collection it requested and carries on
                let (fd, id, n0) = {
                    let m = self.m.borrow();
                    (m.frames.len(), m.inflight.len(), m.objs.len())
                };
                let r = std::panic::catch_unwind(std::panic::AssertUnwindSafe(|| self.collect()));
                if let Err(p) = r {
                    if !p.is::<Injected>() {
                        std::panic::resume_unwind(p);
                    }
                    let mut m = self.m.borrow_mut();
                    m.frames.truncate(fd);
                    m.inflight.truncate(id);
                    m.fired_this_op = false; // contained by the program itself: the operation returns normally
                    m.caught_in_callback = true;
                    // creations that were under way inside the unwound collection never came to life
                    for i in n0..m.objs.len() {
                        if matches!(m.objs[i].status, Status::Pending | Status::UnderConstruction) {
                            m.objs[i].status = Status::Gone;
                        }
                    }
                    drop(m);
                    self.stats.borrow_mut().bump("fault_caught_inside_callback");
                    // the collector must be idle again as seen from this callback
                    if let Some(true) = self.is_tracing_now() {
                        self.fail("O-CONTAIN.idle", "is_tracing() is true right after a callback caught the panic of the collection it had requested".to_string());
                    }
                }
            }
            M::TryUnwrapRoot => {
                if let Some(i) = self.resolve_root(a[0], |_, _| true) {
                    self.try_unwrap_root(i);
                }
            }
            M::FinAgainRoot => {
                if let Some(i) = self.resolve_root(a[0], |_, _| true) {
                    self.fin_again_root(i);
                }
            }
            M::CleanOther => {
                if ctx != ScriptCtx::Act {
                    return;
                }
                if let Some(c) = self.resolve_cleanable(a[0]) {
                    self.clean(c);
                }
            }
            M::DowngradeRoot => {
                if ctx == ScriptCtx::Drop {
                    return;
                }
                if let Some(i) = self.resolve_root(a[0], |_, _| true) {
                    self.downgrade_root(i);
                }
            }
            M::MarkAliveRoot => {
                if ctx == ScriptCtx::Drop {
                    return;
                }
                if let Some(i) = self.resolve_root(a[0], |_, _| true) {
                    self.mark_alive_root(i);
                }
            }
            M::SelfWeakToSlot | M::WeakToSlot => {
                // resurrection into storage owned by the object itself: the cycle so created is unreachable again
                if ctx != ScriptCtx::Fin {
                    return;
                }
                let Some(n) = node else { return };
                let id = n.head.id;
                let found: Option<(*const AnyWeak, Option<ObjId>, i64)> = if mini.code == M::SelfWeakToSlot {
                    match n.self_weak.try_borrow() {
                        Ok(sw) => sw.as_ref().map(|w| (w as *const AnyWeak, Some(id), a[0])),
                        Err(_) => None,
                    }
                } else {
                    match n.weaks.try_borrow() {
                        Ok(ws) if !ws.is_empty() => {
                            let i = a[0].rem_euclid(ws.len() as i64) as usize;
                            let t = self.m.borrow().objs[id as usize].stored_weaks.get(i).copied();
                            t.map(|t| (&ws[i] as *const AnyWeak, t, a[1]))
                        }
                        _ => None,
                    }
                };
                if let Some((p, t, slot)) = found {
                    if let Some(idx) = self.upgrade_weak(p, t, true) {
                        let (cc, o) = self.take_root(idx);
                        self.stats.borrow_mut().bump("finalizer_resurrected_into_own_field");
                        self.set_slot_of_node(n, id, slot, cc, o);
                    }
                }
            }
            M::SaveWeak | M::SelfWeak | M::TryUpgrade | M::CloneRootToSlot => {} // closure-only, handled by run_closure_script
        }
    }

    /// Interprets a new_cyclic closure script. Returns the clones to install into the new node's slots.
    pub fn run_closure_script(&self, id: ObjId, script: &[Mini], ask: &mut dyn FnMut(ClosureAsk) -> Option<AnyWeak>) -> Vec<(u8, AnyCc, ObjId)> {
        let mut sets: Vec<(u8, AnyCc, ObjId)> = Vec::new();
        for mini in script {
            if self.dead.get() {
                break;
            }
            self.stats.borrow_mut().steps += 1;
            self.ev(13, mini.code as u64, mini.a[0] as u64);
            match mini.code {
                MiniCode::SaveWeak => {
                    if let Some(w) = ask(ClosureAsk::CloneWeak) {
                        self.push_weak(w, Some(id));
                        self.stats.borrow_mut().bump("closure_saved_weak");
                    }
                }
                MiniCode::SelfWeak => {}
                MiniCode::TryUpgrade => {
                    let _ = ask(ClosureAsk::TryUpgrade);
                }
                MiniCode::CloneRootToSlot => {
                    if sets.iter().any(|s| s.0 == mini.a[0] as u8) {
                        continue;
                    }
                    if let Some(i) = self.resolve_root(mini.a[1], |_, _| true) {
                        // clones made earlier by this closure are not in the mirror yet: count them by hand
                        let o = self.m.borrow().root_obj[i].unwrap();
                        let pending = sets.iter().filter(|s| s.2 == o).count() as u32;
                        if World::count(&self.m.borrow(), o) + pending >= MAX_STRONG {
                            continue;
                        }
                        if let Some((c, t)) = self.clone_root(i) {
                            sets.push((mini.a[0] as u8, c, t));
                        }
                    }
                }
                _ => self.run_mini(ScriptCtx::Clo, None, mini),
            }
        }
        // the slots are taken modulo the slot count later; make them distinct now
        sets
    }
}

pub fn with_leaf_bytes<R>(cc: &AnyCc, f: impl FnOnce(&[u8]) -> R) -> R {
    match cc {
        AnyCc::N(_) | AnyCc::KI(_) | AnyCc::KF(_) => f(&[]),
        other => crate::leaf_bytes!(other, f),
    }
}

#[allow(unused_imports)]
use with_cc as _;
