//! Program = knobs + fault plan + explicit op list with inline object templates and callback scripts.
//! Text (de)serialisation: one item per line, `#` comments. Every program is total: operands are
//! resolved modulo what is alive at execution time, so any sub-sequence of a program is a program.

use std::fmt::Write as _;

macro_rules! codes {
    ($name:ident, $table:ident : $( $v:ident = $s:literal / $n:literal ),* $(,)?) => {
        #[derive(Clone, Copy, PartialEq, Eq, Debug, PartialOrd, Ord, Hash)]
        #[repr(u8)]
        pub enum $name { $($v),* }
        pub const $table: &[($name, &str, usize)] = &[ $(($name::$v, $s, $n)),* ];
        impl $name {
            pub fn name(self) -> &'static str { $table[self as usize].1 }
            pub fn nargs(self) -> usize { $table[self as usize].2 }
            pub fn from_name(s: &str) -> Option<$name> { $table.iter().find(|e| e.1 == s).map(|e| e.0) }
            pub const COUNT: usize = $table.len();
        }
    };
}

// Top-level operations: name / number of integer arguments.
codes! { OpCode, OPS:
    New = "new" / 0,               // tmpl
    NewLeaf = "newleaf" / 1,       // layout index
    NewKeyI = "newkeyi" / 1,       // key
    NewKeyF = "newkeyf" / 1,       // key selector (see node::key_f)
    NewCyclic = "newcyclic" / 0,   // tmpl + closure script
    NewCyclicLeaf = "newcyclicleaf" / 1, // layout index + closure script
    NewBorrowed = "newborrowed" / 2, // h (node whose store RefCell is borrowed during the creation), mode (0 = mutably, 1 = shared), tmpl
    NewDefault = "newdefault" / 0, // Cc::<KeyI>::default()
    Clone = "clone" / 1,           // h
    Drop = "drop" / 1,             // h
    SetSlot = "setslot" / 3,       // owner h, slot, target h
    MoveSlot = "moveslot" / 3,     // owner h, slot, target h: the handle itself is moved into the field (no clone)
    ClearSlot = "clearslot" / 2,   // owner h, slot
    SetPin = "setpin" / 2,         // owner h, target h
    ClearPin = "clearpin" / 2,     // owner h, pin index
    MarkAlive = "markalive" / 1,   // h
    MarkAliveSlot = "markaliveslot" / 2, // owner h, slot
    Downgrade = "downgrade" / 1,   // h
    WeakNew = "weaknew" / 1,       // type selector
    WeakClone = "weakclone" / 1,   // w
    WeakDrop = "weakdrop" / 1,     // w
    Upgrade = "upgrade" / 1,       // w   (result parked in the handle table)
    UpgradeDrop = "upgradedrop" / 1, // w (result dropped at once)
    StoreWeak = "storeweak" / 2,   // owner h, w (a clone of w is stored in the node)
    TryUnwrap = "tryunwrap" / 1,   // h
    DropUnwrapped = "dropunwrapped" / 1, // bag index
    FinAgain = "finagain" / 1,     // h
    Collect = "collect" / 0,
    Quiesce = "quiesce" / 0,
    CfgAuto = "cfgauto" / 1,       // 0/1
    CfgBuffered = "cfgbuffered" / 1, // 0 = None, n
    CfgPercent = "cfgpercent" / 1, // permille (0..=1000), 2000 = invalid (documented panic)
    CfgReplace = "cfgreplace" / 1, // 0: *config = Config::default(); 1: save a clone of the configuration; 2: assign the saved clone back
    NewInConfig = "newinconfig" / 0, // Cc::new issued while the configuration is borrowed; tmpl
    Register = "register" / 2,     // owner h, captured h (or -1), + action script
    Clean = "clean" / 1,           // c
    DropCleanable = "dropcleanable" / 1, // c
    BulkClone = "bulkclone" / 2,   // h, n   (n clones kept in the bulk bag of that object)
    BulkUpgrade = "bulkupgrade" / 2, // w, n
    BulkWeakClone = "bulkweakclone" / 2, // w, n
    BulkDowngrade = "bulkdowngrade" / 2, // h, n
    BulkDrop = "bulkdrop" / 2,     // h, n   (drop n bulk strong handles of that object)
    BulkWeakDrop = "bulkweakdrop" / 2, // w, n
    BulkRegister = "bulkregister" / 2, // h, n   (n no-op actions on the cleaner of that node; the cleanables are kept)
    BulkClean = "bulkclean" / 2,   // h, n   (clean() on the next n kept cleanables of that node)
    BulkEdges = "bulkedges" / 3,   // owner h, target h, n  (n traced pointers to the target stored in the owner)
    BulkEdgesDrop = "bulkedgesdrop" / 2, // owner h, n
    DebugChain = "debugchain" / 1, // n: format a chain of n nested Cc with {:?} and compare with the same chain of Boxes
    CmpChain = "cmpchain" / 3,     // left shape (len | cyclic<<8 | entry<<12), right len, 2*diff position + sign: Eq/Ord through linked Cc against a plain model
    Compare = "compare" / 2,       // h, h   (forwarding traits, ptr_eq)
    Observe = "observe" / 0,       // explicit full observation (also runs after every op)
}

// Mini-operations of callback scripts.
codes! { MiniCode, MINIS:
    Read = "read" / 0,              // deref every child, check canaries         [fin act clo]
    ClearSlot = "clearslot" / 1,    // own slot := None                          [fin]
    ChildToRoot = "child2root" / 1, // clone own slot child into the handle table [fin]
    ChildToNode = "child2node" / 3, // clone own slot child into slot of a root node: slot, h, slot [fin]
    GrandToRoot = "grand2root" / 2, // clone grandchild                          [fin]
    SelfWeakToRoot = "selfweak2root" / 0, // upgrade self_weak, park result      [fin drop]
    WeakToRoot = "weak2root" / 1,   // upgrade stored weak i, park result        [fin drop act]
    WeakToDrop = "weak2drop" / 1,   // upgrade stored weak i, drop result        [fin act]
    DropRoot = "droproot" / 1,      // drop a handle of the table                [fin act]
    Alloc = "alloc" / 1,            // Cc::new(node with store kind) -> table    [fin drop act clo]
    AllocDrop = "allocdrop" / 1,    // Cc::new(node) dropped at once             [fin act clo]
    Collect = "collect" / 0,        // collect_cycles()                          [fin drop act clo]
    TryUnwrapRoot = "tryunwraproot" / 1, // try_unwrap on a table handle         [fin drop]
    FinAgainRoot = "finagainroot" / 1,   // finalize_again on a table handle     [fin drop]
    CleanOther = "cleanother" / 1,  // clean() another cleanable                 [act]
    SaveWeak = "saveweak" / 0,      // closure: clone the provided weak into the weak table   [clo]
    SelfWeak = "selfweak" / 0,      // closure: the new node stores a clone as its self_weak  [clo]
    TryUpgrade = "tryupgrade" / 0,  // closure: upgrade the provided weak (must be None)      [clo]
    CloneRootToSlot = "root2slot" / 2, // closure: the new node's slot i := clone of table handle h [clo]
    DowngradeRoot = "downgraderoot" / 1, // downgrade a table handle into the weak table [fin act]
    MarkAliveRoot = "markaliveroot" / 1, // [fin]
    CollectCatch = "collectcatch" / 0, // collect_cycles() inside catch_unwind: a panic of that collection is caught by the callback itself [fin drop act]
    AllocCyclic = "alloccyclic" / 1, // Cc::new_cyclic(node with store kind) -> table [fin drop act]
    SelfWeakToSlot = "selfweak2slot" / 1, // upgrade self_weak and store the result in the own slot i [fin]
    WeakToSlot = "weak2slot" / 2,   // upgrade stored weak i and store the result in the own slot j  [fin]
}

#[derive(Clone, Copy, PartialEq, Eq, Debug, Hash)]
pub struct Mini {
    pub code: MiniCode,
    pub a: [i64; 3],
}

impl Mini {
    pub fn new(code: MiniCode, args: &[i64]) -> Mini {
        let mut a = [0i64; 3];
        for (i, x) in args.iter().enumerate() {
            a[i] = *x;
        }
        Mini { code, a }
    }
}

pub type Script = Vec<Mini>;

#[derive(Clone, PartialEq, Eq, Debug, Default, Hash)]
pub struct NodeTmpl {
    pub store: u16, // index into node::STORE_KINDS
    pub fin: Script,
    pub drop: Script,
}

#[derive(Clone, PartialEq, Eq, Debug, Hash)]
pub struct Op {
    pub code: OpCode,
    pub a: [i64; 3],
    pub tmpl: Option<NodeTmpl>,
    pub script: Script, // closure script (newcyclic) or action script (register)
}

impl Op {
    pub fn new(code: OpCode, args: &[i64]) -> Op {
        let mut a = [0i64; 3];
        for (i, x) in args.iter().enumerate() {
            a[i] = *x;
        }
        Op { code, a, tmpl: None, script: Vec::new() }
    }
    pub fn with_tmpl(mut self, t: NodeTmpl) -> Op {
        self.tmpl = Some(t);
        self
    }
    pub fn with_script(mut self, s: Script) -> Op {
        self.script = s;
        self
    }
}

codes! { FaultKind, FAULTS:
    Trace = "trace" / 0,         // k-th Node::trace
    TraceEdge = "traceedge" / 0, // k-th Edge::trace (mid-container)
    Finalize = "finalize" / 0,   // k-th Node::finalize, at entry
    FinalizePost = "finalizepost" / 0, // k-th Node::finalize, after its script
    Drop = "drop" / 0,           // k-th Node::drop body, at entry
    DropPost = "droppost" / 0,   // k-th Node::drop body, after its script
    LeafFinalize = "leaffinalize" / 0,
    LeafDrop = "leafdrop" / 0,
    Action = "action" / 0,       // k-th cleaning action, at entry
    Closure = "closure" / 0,     // k-th new_cyclic closure, after its script
}

#[derive(Clone, Copy, PartialEq, Eq, Debug, Hash)]
pub struct Fault {
    pub kind: FaultKind,
    pub k: u32,
}

#[derive(Clone, Copy, PartialEq, Debug)]
pub struct Knobs {
    pub auto: bool,
    pub buffered: u32,  // 0 = None
    pub permille: u32,  // adjustment percent in 1/1000
}

impl Default for Knobs {
    fn default() -> Self {
        Knobs { auto: false, buffered: 0, permille: 100 }
    }
}

#[derive(Clone, Debug, PartialEq)]
pub struct Program {
    pub config: String,
    pub profile: String,
    pub seed: (u64, u64),
    pub knobs: Knobs,
    pub faults: Vec<Fault>,
    pub ops: Vec<Op>,
    /// Number of threads (C19 profile); 0/1 = single-threaded program.
    pub threads: Vec<ThreadPlan>,
    /// C19: the baton order (thread ids); when it runs out the remaining steps are taken round-robin.
    pub schedule: Vec<u8>,
    pub expect: Option<(String, String)>, // (property, oracle)
}

/// C19: each thread runs its own op list; `schedule` is the baton order (thread ids).
#[derive(Clone, Debug, PartialEq)]
pub struct ThreadPlan {
    pub tls_first: bool, // user thread-local touched before the first Cc operation
    pub tls_keep: u32,   // how many handles are moved into the user thread-local at the end
    pub ops: Vec<Op>,
    pub knobs: Knobs,
    pub faults: Vec<Fault>, // injected callback panics of this thread's own program
}

impl Program {
    pub fn empty(profile: &str) -> Program {
        Program {
            config: String::new(),
            profile: profile.to_string(),
            seed: (0, 0),
            knobs: Knobs::default(),
            faults: Vec::new(),
            ops: Vec::new(),
            threads: Vec::new(),
            schedule: Vec::new(),
            expect: None,
        }
    }
}

fn script_to_text(s: &Script, out: &mut String) {
    out.push('[');
    for (i, m) in s.iter().enumerate() {
        if i > 0 {
            out.push_str("; ");
        }
        out.push_str(m.code.name());
        for k in 0..m.code.nargs() {
            let _ = write!(out, " {}", m.a[k]);
        }
    }
    out.push(']');
}

fn op_to_text(op: &Op, out: &mut String) {
    out.push_str(op.code.name());
    for k in 0..op.code.nargs() {
        let _ = write!(out, " {}", op.a[k]);
    }
    if let Some(t) = &op.tmpl {
        let _ = write!(out, " store={}", crate::node::STORE_KINDS[t.store as usize].0);
        if !t.fin.is_empty() {
            out.push_str(" fin=");
            script_to_text(&t.fin, out);
        }
        if !t.drop.is_empty() {
            out.push_str(" drop=");
            script_to_text(&t.drop, out);
        }
    }
    if !op.script.is_empty() {
        out.push_str(" script=");
        script_to_text(&op.script, out);
    }
}

pub fn knobs_to_text(k: &Knobs) -> String {
    format!("auto={} buffered={} permille={}", k.auto as u8, k.buffered, k.permille)
}

impl Program {
    pub fn to_text(&self) -> String {
        let mut s = String::new();
        let _ = writeln!(s, "config {}", if self.config.is_empty() { "-" } else { &self.config });
        let _ = writeln!(s, "profile {}", self.profile);
        let _ = writeln!(s, "seed {} {}", self.seed.0, self.seed.1);
        let _ = writeln!(s, "knobs {}", knobs_to_text(&self.knobs));
        for f in &self.faults {
            let _ = writeln!(s, "fault {} {}", f.kind.name(), f.k);
        }
        for op in &self.ops {
            s.push_str("op ");
            op_to_text(op, &mut s);
            s.push('\n');
        }
        for (i, t) in self.threads.iter().enumerate() {
            let _ = writeln!(s, "thread {} tlsfirst={} tlskeep={} {}", i, t.tls_first as u8, t.tls_keep, knobs_to_text(&t.knobs));
            for f in &t.faults {
                let _ = writeln!(s, "tfault {} {}", f.kind.name(), f.k);
            }
            for op in &t.ops {
                s.push_str("top ");
                op_to_text(op, &mut s);
                s.push('\n');
            }
        }
        if !self.schedule.is_empty() {
            s.push_str("schedule");
            for t in &self.schedule {
                let _ = write!(s, " {}", t);
            }
            s.push('\n');
        }
        if let Some((p, o)) = &self.expect {
            let _ = writeln!(s, "expect property={} oracle={}", p, o);
        }
        s
    }

    pub fn parse(text: &str) -> Result<Program, String> {
        let mut p = Program::empty("");
        for (ln, raw) in text.lines().enumerate() {
            let line = match raw.find('#') {
                Some(i) => &raw[..i],
                None => raw,
            }
            .trim();
            if line.is_empty() {
                continue;
            }
            let err = |m: &str| format!("line {}: {}: `{}`", ln + 1, m, raw);
            let (head, rest) = match line.find(' ') {
                Some(i) => (&line[..i], line[i + 1..].trim()),
                None => (line, ""),
            };
            match head {
                "config" => p.config = if rest == "-" { String::new() } else { rest.to_string() },
                "profile" => p.profile = rest.to_string(),
                "seed" => {
                    let v: Vec<&str> = rest.split_whitespace().collect();
                    if v.len() != 2 {
                        return Err(err("seed needs two integers"));
                    }
                    p.seed = (v[0].parse().map_err(|_| err("bad seed"))?, v[1].parse().map_err(|_| err("bad seed"))?);
                }
                "knobs" => p.knobs = parse_knobs(rest).map_err(|e| err(&e))?,
                "fault" => {
                    let v: Vec<&str> = rest.split_whitespace().collect();
                    if v.len() != 2 {
                        return Err(err("fault needs kind and index"));
                    }
                    let kind = FaultKind::from_name(v[0]).ok_or_else(|| err("unknown fault kind"))?;
                    p.faults.push(Fault { kind, k: v[1].parse().map_err(|_| err("bad fault index"))? });
                }
                "op" => p.ops.push(parse_op(rest).map_err(|e| err(&e))?),
                "thread" => {
                    let mut it = rest.split_whitespace();
                    let _idx = it.next();
                    let mut tp = ThreadPlan { tls_first: false, tls_keep: 0, ops: Vec::new(), knobs: Knobs::default(), faults: Vec::new() };
                    let mut ktext = String::new();
                    for kv in it {
                        if let Some(v) = kv.strip_prefix("tlsfirst=") {
                            tp.tls_first = v == "1";
                        } else if let Some(v) = kv.strip_prefix("tlskeep=") {
                            tp.tls_keep = v.parse().map_err(|_| err("bad tlskeep"))?;
                        } else {
                            ktext.push_str(kv);
                            ktext.push(' ');
                        }
                    }
                    tp.knobs = parse_knobs(ktext.trim()).map_err(|e| err(&e))?;
                    p.threads.push(tp);
                }
                "tfault" => {
                    let v: Vec<&str> = rest.split_whitespace().collect();
                    if v.len() != 2 {
                        return Err(err("tfault needs kind and index"));
                    }
                    let kind = FaultKind::from_name(v[0]).ok_or_else(|| err("unknown fault kind"))?;
                    let f = Fault { kind, k: v[1].parse().map_err(|_| err("bad fault index"))? };
                    match p.threads.last_mut() {
                        Some(t) => t.faults.push(f),
                        None => return Err(err("`tfault` before any `thread`")),
                    }
                }
                "top" => {
                    let op = parse_op(rest).map_err(|e| err(&e))?;
                    match p.threads.last_mut() {
                        Some(t) => t.ops.push(op),
                        None => return Err(err("`top` before any `thread`")),
                    }
                }
                "schedule" => {
                    for t in rest.split_whitespace() {
                        p.schedule.push(t.parse().map_err(|_| err("bad thread id in schedule"))?);
                    }
                }
                "expect" => {
                    let mut prop = String::new();
                    let mut orc = String::new();
                    for kv in rest.split_whitespace() {
                        if let Some(v) = kv.strip_prefix("property=") {
                            prop = v.to_string();
                        } else if let Some(v) = kv.strip_prefix("oracle=") {
                            orc = v.to_string();
                        }
                    }
                    p.expect = Some((prop, orc));
                }
                _ => return Err(err("unknown directive")),
            }
        }
        Ok(p)
    }
}

fn parse_knobs(s: &str) -> Result<Knobs, String> {
    let mut k = Knobs::default();
    for kv in s.split_whitespace() {
        if let Some(v) = kv.strip_prefix("auto=") {
            k.auto = v == "1";
        } else if let Some(v) = kv.strip_prefix("buffered=") {
            k.buffered = v.parse().map_err(|_| "bad buffered".to_string())?;
        } else if let Some(v) = kv.strip_prefix("permille=") {
            k.permille = v.parse().map_err(|_| "bad permille".to_string())?;
        } else {
            return Err(format!("unknown knob `{}`", kv));
        }
    }
    Ok(k)
}

fn parse_script(s: &str) -> Result<Script, String> {
    let s = s.trim();
    let inner = s.strip_prefix('[').and_then(|x| x.strip_suffix(']')).ok_or_else(|| format!("script must be in [..]: `{}`", s))?;
    let mut out = Vec::new();
    for part in inner.split(';') {
        let part = part.trim();
        if part.is_empty() {
            continue;
        }
        let mut it = part.split_whitespace();
        let name = it.next().unwrap();
        let code = MiniCode::from_name(name).ok_or_else(|| format!("unknown mini-op `{}`", name))?;
        let mut a = [0i64; 3];
        for k in 0..code.nargs() {
            a[k] = it.next().ok_or_else(|| format!("`{}` needs {} args", name, code.nargs()))?.parse().map_err(|_| format!("bad arg in `{}`", part))?;
        }
        out.push(Mini { code, a });
    }
    Ok(out)
}

/// Splits `rest` into plain tokens and key=[...] / key=value attributes (brackets may contain spaces).
fn split_attrs(rest: &str) -> (Vec<String>, Vec<(String, String)>) {
    let mut plain = Vec::new();
    let mut attrs = Vec::new();
    let b = rest.as_bytes();
    let mut i = 0;
    while i < b.len() {
        while i < b.len() && b[i] == b' ' {
            i += 1;
        }
        if i >= b.len() {
            break;
        }
        let start = i;
        let mut depth = 0;
        while i < b.len() && (b[i] != b' ' || depth > 0) {
            if b[i] == b'[' {
                depth += 1;
            } else if b[i] == b']' {
                depth -= 1;
            }
            i += 1;
        }
        let tok = &rest[start..i];
        match tok.find('=') {
            Some(e) if !tok.starts_with('-') => attrs.push((tok[..e].to_string(), tok[e + 1..].to_string())),
            _ => plain.push(tok.to_string()),
        }
    }
    (plain, attrs)
}

fn parse_op(rest: &str) -> Result<Op, String> {
    let (plain, attrs) = split_attrs(rest);
    if plain.is_empty() {
        return Err("empty op".into());
    }
    let code = OpCode::from_name(&plain[0]).ok_or_else(|| format!("unknown op `{}`", plain[0]))?;
    if plain.len() - 1 != code.nargs() {
        return Err(format!("`{}` needs {} args", plain[0], code.nargs()));
    }
    let mut a = [0i64; 3];
    for k in 0..code.nargs() {
        a[k] = plain[k + 1].parse().map_err(|_| format!("bad integer `{}`", plain[k + 1]))?;
    }
    let mut op = Op { code, a, tmpl: None, script: Vec::new() };
    let mut tmpl = NodeTmpl::default();
    let mut has_tmpl = false;
    for (k, v) in attrs {
        match k.as_str() {
            "store" => {
                has_tmpl = true;
                tmpl.store = crate::node::STORE_KINDS.iter().position(|e| e.0 == v).ok_or_else(|| format!("unknown store kind `{}`", v))? as u16;
            }
            "fin" => {
                has_tmpl = true;
                tmpl.fin = parse_script(&v)?;
            }
            "drop" => {
                has_tmpl = true;
                tmpl.drop = parse_script(&v)?;
            }
            "script" => op.script = parse_script(&v)?,
            _ => return Err(format!("unknown attribute `{}`", k)),
        }
    }
    if has_tmpl {
        op.tmpl = Some(tmpl);
    }
    Ok(op)
}
