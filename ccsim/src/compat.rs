//! Uniform access to optional crate features: when a feature is off the simulator gets an inert stub
//! with the same surface, and the generator simply never produces the operations that need it.

#![allow(dead_code)]

use rust_cc::*;

pub const HAS_FIN: bool = cfg!(feature = "fin");
pub const HAS_WEAK: bool = cfg!(feature = "weak");
pub const HAS_CLEAN: bool = cfg!(feature = "clean");
pub const HAS_AUTO: bool = cfg!(feature = "auto");

// ---------------------------------------------------------------- weak pointers

#[cfg(not(feature = "weak"))]
pub struct Weak<T: ?Sized + Trace + 'static> {
    _p: core::marker::PhantomData<std::rc::Rc<T>>,
}

#[cfg(not(feature = "weak"))]
impl<T: Trace + 'static> Weak<T> {
    pub fn new() -> Self {
        Weak { _p: core::marker::PhantomData }
    }
    pub fn upgrade(&self) -> Option<Cc<T>> {
        None
    }
    pub fn strong_count(&self) -> u32 {
        0
    }
    pub fn weak_count(&self) -> u32 {
        0
    }
    pub fn ptr_eq(_: &Weak<T>, _: &Weak<T>) -> bool {
        true
    }
}
#[cfg(not(feature = "weak"))]
impl<T: Trace + 'static> Clone for Weak<T> {
    fn clone(&self) -> Self {
        Weak::new()
    }
}
#[cfg(not(feature = "weak"))]
unsafe impl<T: ?Sized + Trace + 'static> Trace for Weak<T> {
    fn trace(&self, _: &mut Context<'_>) {}
}
#[cfg(not(feature = "weak"))]
impl<T: ?Sized + Trace + 'static> Finalize for Weak<T> {}

#[cfg(feature = "weak")]
pub fn downgrade<T: Trace + 'static>(cc: &Cc<T>) -> rust_cc::weak::Weak<T> {
    cc.downgrade()
}
#[cfg(not(feature = "weak"))]
pub fn downgrade<T: Trace + 'static>(_cc: &Cc<T>) -> Weak<T> {
    Weak::new()
}

#[cfg(feature = "weak")]
pub fn cc_weak_count<T: Trace + 'static>(cc: &Cc<T>) -> u32 {
    cc.weak_count()
}
#[cfg(not(feature = "weak"))]
pub fn cc_weak_count<T: Trace + 'static>(_cc: &Cc<T>) -> u32 {
    0
}

#[cfg(feature = "weak")]
pub fn new_cyclic<T: Trace + 'static>(f: impl FnOnce(&rust_cc::weak::Weak<T>) -> T) -> Cc<T> {
    Cc::new_cyclic(f)
}
#[cfg(not(feature = "weak"))]
pub fn new_cyclic<T: Trace + 'static>(f: impl FnOnce(&Weak<T>) -> T) -> Cc<T> {
    let w = Weak::new();
    Cc::new(f(&w))
}

// ---------------------------------------------------------------- finalization

#[cfg(feature = "fin")]
pub fn already_finalized<T: Trace + 'static>(cc: &Cc<T>) -> bool {
    cc.already_finalized()
}
#[cfg(not(feature = "fin"))]
pub fn already_finalized<T: Trace + 'static>(_cc: &Cc<T>) -> bool {
    false
}
#[cfg(feature = "fin")]
pub fn finalize_again<T: Trace + 'static>(cc: &mut Cc<T>) {
    cc.finalize_again()
}
#[cfg(not(feature = "fin"))]
pub fn finalize_again<T: Trace + 'static>(_cc: &mut Cc<T>) {}

// ---------------------------------------------------------------- cleaners

#[cfg(feature = "clean")]
pub use rust_cc::cleaners::{Cleanable, Cleaner};

#[cfg(not(feature = "clean"))]
pub struct Cleaner;
#[cfg(not(feature = "clean"))]
pub struct Cleanable;
#[cfg(not(feature = "clean"))]
impl Cleaner {
    pub fn new() -> Cleaner {
        Cleaner
    }
    pub fn register(&self, _action: impl FnOnce() + 'static) -> Cleanable {
        Cleanable
    }
}
#[cfg(not(feature = "clean"))]
impl Cleanable {
    pub fn clean(&self) {}
}
#[cfg(not(feature = "clean"))]
unsafe impl Trace for Cleaner {
    fn trace(&self, _: &mut Context<'_>) {}
}
#[cfg(not(feature = "clean"))]
impl Finalize for Cleaner {}

// ---------------------------------------------------------------- configuration

/// Result of a configuration access: Ok, Busy (already borrowed) or Gone.
#[derive(Clone, Copy, PartialEq, Eq, Debug)]
pub enum CfgAccess {
    Ok,
    Busy,
    Gone,
    NoFeature,
}

#[cfg(feature = "auto")]
pub fn cfg_set_auto(v: bool) -> CfgAccess {
    match rust_cc::config::config(|c| c.set_auto_collect(v)) {
        Ok(()) => CfgAccess::Ok,
        Err(rust_cc::config::ConfigAccessError::ConcurrentAccessError) => CfgAccess::Busy,
        Err(_) => CfgAccess::Gone,
    }
}
#[cfg(feature = "auto")]
pub fn cfg_set_buffered(v: u32) -> CfgAccess {
    match rust_cc::config::config(|c| c.set_buffered_objects_threshold(core::num::NonZeroUsize::new(v as usize))) {
        Ok(()) => CfgAccess::Ok,
        Err(rust_cc::config::ConfigAccessError::ConcurrentAccessError) => CfgAccess::Busy,
        Err(_) => CfgAccess::Gone,
    }
}
/// May panic (documented) when `percent` is outside [0, 1].
#[cfg(feature = "auto")]
pub fn cfg_set_percent(percent: f64) -> CfgAccess {
    match rust_cc::config::config(|c| c.set_adjustment_percent(percent)) {
        Ok(()) => CfgAccess::Ok,
        Err(rust_cc::config::ConfigAccessError::ConcurrentAccessError) => CfgAccess::Busy,
        Err(_) => CfgAccess::Gone,
    }
}
/// (auto_collect, buffered threshold (0 = None), adjustment percent, bytes threshold)
#[cfg(feature = "auto")]
pub fn cfg_read() -> Option<(bool, u32, f64, usize)> {
    let a = rust_cc::config::config(|c| (c.auto_collect(), c.buffered_objects_threshold().map_or(0, |n| n.get() as u32), c.adjustment_percent())).ok()?;
    let t = rust_cc::verif::bytes_threshold()?;
    Some((a.0, a.1, a.2, t))
}
/// Runs `f` while the configuration is borrowed (creations inside must not collect).
#[cfg(feature = "auto")]
pub fn cfg_with_borrowed<R>(f: impl FnOnce() -> R) -> Option<R> {
    rust_cc::config::config(|_c| f()).ok()
}

/// Replaces the whole configuration (not through the setters).
#[cfg(feature = "auto")]
pub fn cfg_assign(new: rust_cc::config::Config) -> CfgAccess {
    match rust_cc::config::config(|c| *c = new) {
        Ok(()) => CfgAccess::Ok,
        Err(rust_cc::config::ConfigAccessError::ConcurrentAccessError) => CfgAccess::Busy,
        Err(_) => CfgAccess::Gone,
    }
}
#[cfg(feature = "auto")]
pub fn cfg_clone() -> Option<rust_cc::config::Config> {
    rust_cc::config::config(|c| c.clone()).ok()
}
#[cfg(feature = "auto")]
pub type SavedConfig = rust_cc::config::Config;
#[cfg(not(feature = "auto"))]
pub type SavedConfig = ();

#[cfg(not(feature = "auto"))]
pub fn cfg_set_auto(_v: bool) -> CfgAccess {
    CfgAccess::NoFeature
}
#[cfg(not(feature = "auto"))]
pub fn cfg_set_buffered(_v: u32) -> CfgAccess {
    CfgAccess::NoFeature
}
#[cfg(not(feature = "auto"))]
pub fn cfg_set_percent(_p: f64) -> CfgAccess {
    CfgAccess::NoFeature
}
#[cfg(not(feature = "auto"))]
pub fn cfg_read() -> Option<(bool, u32, f64, usize)> {
    None
}
#[cfg(not(feature = "auto"))]
pub fn cfg_with_borrowed<R>(f: impl FnOnce() -> R) -> Option<R> {
    Some(f())
}

pub fn config_name() -> String {
    let mut s = String::new();
    for (on, n) in [(HAS_FIN, "fin"), (HAS_WEAK, "weak"), (HAS_CLEAN, "clean"), (HAS_AUTO, "auto")] {
        if on {
            if !s.is_empty() {
                s.push('+');
            }
            s.push_str(n);
        }
    }
    if s.is_empty() {
        s.push_str("min");
    }
    s.push_str(if cfg!(debug_assertions) { "/debug" } else { "/release" });
    s
}
