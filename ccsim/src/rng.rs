//! The only source of randomness: splitmix64-seeded xoshiro256**.

#[derive(Clone)]
pub struct Rng {
    s: [u64; 4],
}

pub fn splitmix(x: &mut u64) -> u64 {
    *x = x.wrapping_add(0x9E37_79B9_7F4A_7C15);
    let mut z = *x;
    z = (z ^ (z >> 30)).wrapping_mul(0xBF58_476D_1CE4_E5B9);
    z = (z ^ (z >> 27)).wrapping_mul(0x94D0_49BB_1331_11EB);
    z ^ (z >> 31)
}

/// Mixes a base seed, a stream label and a run index into one 64-bit seed.
pub fn mix(seed: u64, stream: u64, index: u64) -> u64 {
    let mut x = seed ^ 0xC0FF_EE11_D00D_F00D;
    let a = splitmix(&mut x);
    let mut y = a ^ stream.wrapping_mul(0x9E37_79B9_7F4A_7C15);
    let b = splitmix(&mut y);
    let mut z = b ^ index.wrapping_mul(0xD6E8_FEB8_6659_FD93);
    splitmix(&mut z)
}

pub fn hash_str(s: &str) -> u64 {
    let mut h: u64 = 0xcbf2_9ce4_8422_2325;
    for b in s.bytes() {
        h ^= b as u64;
        h = h.wrapping_mul(0x0000_0100_0000_01B3);
    }
    h
}

impl Rng {
    pub fn new(seed: u64) -> Rng {
        let mut x = seed;
        Rng { s: [splitmix(&mut x), splitmix(&mut x), splitmix(&mut x), splitmix(&mut x)] }
    }

    #[inline]
    pub fn next(&mut self) -> u64 {
        let r = self.s[1].wrapping_mul(5).rotate_left(7).wrapping_mul(9);
        let t = self.s[1] << 17;
        self.s[2] ^= self.s[0];
        self.s[3] ^= self.s[1];
        self.s[1] ^= self.s[2];
        self.s[0] ^= self.s[3];
        self.s[2] ^= t;
        self.s[3] = self.s[3].rotate_left(45);
        r
    }

    /// Uniform in `0..n` (n > 0).
    #[inline]
    pub fn below(&mut self, n: u64) -> u64 {
        debug_assert!(n > 0);
        ((self.next() as u128 * n as u128) >> 64) as u64
    }

    #[inline]
    pub fn range(&mut self, lo: u64, hi_incl: u64) -> u64 {
        lo + self.below(hi_incl - lo + 1)
    }

    #[inline]
    pub fn chance(&mut self, num: u64, den: u64) -> bool {
        self.below(den) < num
    }

    pub fn f64(&mut self) -> f64 {
        (self.next() >> 11) as f64 / (1u64 << 53) as f64
    }

    pub fn pick<'a, T>(&mut self, xs: &'a [T]) -> &'a T {
        &xs[self.below(xs.len() as u64) as usize]
    }

    /// Index drawn according to integer weights (sum > 0).
    pub fn weighted(&mut self, w: &[u32]) -> usize {
        let total: u64 = w.iter().map(|&x| x as u64).sum();
        debug_assert!(total > 0);
        let mut r = self.below(total);
        for (i, &x) in w.iter().enumerate() {
            if r < x as u64 {
                return i;
            }
            r -= x as u64;
        }
        w.len() - 1
    }

    /// Geometric-ish size: median around `med`, clamped to `lo..=hi`.
    pub fn size(&mut self, lo: u64, med: u64, hi: u64) -> u64 {
        let mut v = lo;
        let span = med.saturating_sub(lo).max(1);
        // sum of two halves gives a triangular bulk; a 1/8 tail stretches toward hi
        v += self.below(span + 1) + self.below(span + 1);
        if self.chance(1, 8) {
            v += self.below(hi.saturating_sub(v) + 1);
        }
        v.clamp(lo, hi)
    }
}
