//! Top-level operations: dispatch, unwinding recovery, and the operations shared with scripts.

use std::panic::{catch_unwind, AssertUnwindSafe};

use rust_cc::*;

use crate::alloc::{self, BlockState};
use crate::compat::{self, *};
use crate::exec::*;
use crate::leaves::*;
use crate::node::*;
use crate::program::*;
use crate::world::*;
use crate::{cc_to_weak, cc_unwrap, map_weak, with_cc, with_cc_pair, with_val, with_weak};

impl World {
    fn node_of_root(&self, i: usize) -> Option<&Node> {
        let p = self.root_ptr(i);
        match unsafe { &*p } {
            AnyCc::N(c) => Some(&**c),
            _ => None,
        }
    }

    /// owner.slot := cc (a fresh clone of `target`), dropping whatever the slot held.
    pub fn set_slot_of_root(&self, owner_idx: usize, slot: i64, cc: AnyCc, target: ObjId) {
        let owner = self.m.borrow().root_obj[owner_idx].unwrap();
        let _busy = self.busy(owner_idx);
        let Some(node) = self.node_of_root(owner_idx) else {
            self.drop_cc(cc, target, "an unused clone");
            return;
        };
        self.set_slot_of_node(node, owner, slot, cc, target);
    }

    /// node.slot := cc, dropping whatever the slot held (`owner` is the object id of `node`).
    pub fn set_slot_of_node(&self, node: &Node, owner: ObjId, slot: i64, cc: AnyCc, target: ObjId) {
        let res = {
            match node.store.try_borrow_mut() {
                Err(_) => Err(cc),
                Ok(mut st) => {
                    let mut edges = Vec::new();
                    st.walk_mut(&mut edges);
                    if edges.is_empty() {
                        Err(cc)
                    } else {
                        let s = slot.rem_euclid(edges.len() as i64) as usize;
                        let key = KEY_SLOT | s as u32;
                        let old = edges[s].set(cc);
                        let old_t = self.m.borrow_mut().edge_insert(owner, key, target);
                        Ok((old, old_t))
                    }
                }
            }
        };
        match res {
            Err(cc) => self.drop_cc(cc, target, "an unused clone"),
            Ok((Some(old), Some(old_t))) => self.drop_cc(old, old_t, "a field overwritten by the program"),
            Ok((None, None)) => {}
            Ok((a, b)) => harness_error(format!("slot overwrite mismatch: real {} mirror {:?}", a.is_some(), b)),
        }
    }

    pub fn clear_slot_of_root(&self, owner_idx: usize, slot: i64) {
        let owner = self.m.borrow().root_obj[owner_idx].unwrap();
        let _busy = self.busy(owner_idx);
        let Some(node) = self.node_of_root(owner_idx) else { return };
        let taken = {
            let Ok(mut st) = node.store.try_borrow_mut() else { return };
            let mut edges = Vec::new();
            st.walk_mut(&mut edges);
            if edges.is_empty() {
                return;
            }
            let s = slot.rem_euclid(edges.len() as i64) as usize;
            edges[s].take().map(|cc| (cc, KEY_SLOT | s as u32))
        };
        if let Some((cc, key)) = taken {
            let t = self.m.borrow_mut().edge_remove(owner, key).expect("mirror edge");
            self.drop_cc(cc, t, "a field cleared by the program");
        }
    }

    pub fn mark_alive_root(&self, i: usize) {
        let o = self.m.borrow().root_obj[i].unwrap();
        let p = self.root_ptr(i);
        self.lib(LibCall::Other, || with_cc!(unsafe { &*p }, c => c.mark_alive()));
        self.m.borrow_mut().buf_model.remove(&o);
    }

    pub fn downgrade_root(&self, i: usize) -> Option<usize> {
        if !HAS_WEAK {
            return None;
        }
        let o = self.m.borrow().root_obj[i].unwrap();
        let p = self.root_ptr(i);
        let wc = World::weak_count_model(&self.m.borrow(), o) + self.hidden_weaks(o);
        if wc >= MAX_WEAK {
            self.expect_limit_panic_weak(o, "downgrade", || {
                let _ = self.lib(LibCall::Downgrade, || cc_to_weak!(unsafe { &*p }, c => compat::downgrade(c)));
            });
            return None;
        }
        {
            let mut m = self.m.borrow_mut();
            if m.objs[o as usize].side_addr == 0 {
                m.expect_side_for = Some(o);
            }
        }
        let w = self.lib(LibCall::Downgrade, || cc_to_weak!(unsafe { &*p }, c => compat::downgrade(c)));
        self.sync();
        {
            let mut m = self.m.borrow_mut();
            m.expect_side_for = None;
            m.buf_model.remove(&o);
            m.objs[o as usize].downgraded_seen = true;
        }
        Some(self.push_weak(w, Some(o)))
    }

    /// Weak pointers the harness cannot see (the cleanables of a cleaner map).
    fn hidden_weaks(&self, _o: ObjId) -> u32 {
        0
    }

    pub fn expect_limit_panic_weak(&self, o: ObjId, what: &str, f: impl FnOnce()) {
        let r = catch_unwind(AssertUnwindSafe(f));
        self.stats.borrow_mut().bump("limit_attempt");
        match r {
            Ok(()) => self.fail("O-SAT.nopanic", format!("{} on object {} succeeded although the maximum number of Weak pointers already exists", what, o)),
            Err(p) => {
                if p.is::<Injected>() || p.is::<HarnessError>() {
                    std::panic::resume_unwind(p);
                }
                let msg = panic_message(&p);
                if crate::exec::internal_error_message(&msg) {
                    self.fail("O-SAT.message", format!("{} on object {} at the limit did not panic with the limit panic but with an internal error: {}", what, o, msg));
                }
            }
        }
    }

    /// `Cc::try_unwrap` on the handle at `i` with the C13 / C12 oracle.
    pub fn try_unwrap_root(&self, i: usize) {
        let (cc, o) = self.take_root(i);
        let (unique, in_cb, in_coll, tainted) = {
            let m = self.m.borrow();
            (World::count(&m, o) == 0, World::in_fin_or_drop(&m), m.frames.iter().any(|f| f.collector), m.objs[o as usize].tainted)
        };
        let addr_before = payload_addr(&cc);
        let buf_before: Option<Vec<usize>> = rust_cc::verif::buffer_walk(100_000).map(|w| w.members.iter().map(|s| s.box_addr).collect());
        let steps_before = self.stats.borrow().callbacks.values().sum::<u64>();
        let fin_before = with_cc!(&cc, c => compat::already_finalized(c));
        let box_addr = self.m.borrow().objs[o as usize].box_addr;
        if unique && !in_cb && !in_coll {
            self.m.borrow_mut().objs[o as usize].status = Status::Unwrapped; // so that the release of the box is legal
        }
        let r = self.lib(LibCall::TryUnwrap, move || cc_unwrap!(cc, c => c.try_unwrap()));
        self.sync();
        let steps_after = self.stats.borrow().callbacks.values().sum::<u64>();
        if steps_after != steps_before {
            self.fail("O-UNWRAP.callback", format!("try_unwrap on object {} ran {} user callbacks", o, steps_after - steps_before));
            return;
        }
        match r {
            Ok(v) => {
                self.stats.borrow_mut().bump("try_unwrap_ok");
                if in_cb || in_coll {
                    self.m.borrow_mut().objs[o as usize].status = Status::Unwrapped;
                    self.fail("O-PHASE.unwrap", format!("try_unwrap returned Ok for object {} from inside a finalizer / destructor / collection", o));
                    std::mem::forget(v);
                    return;
                }
                if !unique {
                    self.m.borrow_mut().objs[o as usize].status = Status::Unwrapped;
                    self.fail("O-UNWRAP.not-unique", format!("try_unwrap returned Ok for object {} although other Cc pointers to it exist", o));
                    std::mem::forget(v);
                    return;
                }
                // value intact
                let ok = match &v {
                    AnyVal::N(n) => n.canary_ok() && n.head.id == o,
                    AnyVal::KI(_) | AnyVal::KF(_) => true,
                    other => leaf_val_ok(other, o),
                };
                if !ok {
                    self.fail("O-UNWRAP.value", format!("try_unwrap on object {} returned a value that is not the original one", o));
                    std::mem::forget(v);
                    return;
                }
                if box_addr != 0 && alloc::block(box_addr).state == BlockState::Live && !tainted {
                    self.fail("O-UNWRAP.freed", format!("try_unwrap on object {} returned Ok but did not release the allocation", o));
                }
                let mut m = self.m.borrow_mut();
                m.buf_model.remove(&o);
                m.objs[o as usize].status = Status::Unwrapped;
                m.free_paths.insert(2);
                if let ObjKind::Leaf(l) = m.objs[o as usize].kind {
                    m.leaf_layouts_freed.insert(l);
                }
                {
                    let ob = &m.objs[o as usize];
                    if ob.was_buffered || ob.fin_flag || ob.via_cyclic || ob.side_addr != 0 {
                        self.stats.borrow_mut().bump("try_unwrap_ok_interesting");
                    }
                }
                m.bag_obj.push(Some(o));
                drop(m);
                self.t.borrow_mut().bag.push(Some(v));
            }
            Err(cc) => {
                self.stats.borrow_mut().bump("try_unwrap_err");
                {
                    let mut m = self.m.borrow_mut();
                    if m.objs[o as usize].status == Status::Unwrapped {
                        m.objs[o as usize].status = Status::Live;
                    }
                }
                // put the very same pointer back in place
                let same = payload_addr(&cc) == addr_before;
                let fin_after = with_cc!(&cc, c => compat::already_finalized(c));
                {
                    let mut t = self.t.borrow_mut();
                    let mut m = self.m.borrow_mut();
                    t.roots[i] = Some(Box::new(cc));
                    m.root_obj[i] = Some(o);
                }
                let buf_after: Option<Vec<usize>> = rust_cc::verif::buffer_walk(100_000).map(|w| w.members.iter().map(|s| s.box_addr).collect());
                if !same {
                    self.fail("O-UNWRAP.same", format!("try_unwrap on object {} returned Err with a different pointer", o));
                } else if buf_before != buf_after {
                    self.fail("O-UNWRAP.buffer", format!("a failed try_unwrap on object {} changed the buffer of possible cycle roots ({} -> {} members)", o, buf_before.map_or(0, |b| b.len()), buf_after.map_or(0, |b| b.len())));
                } else if unique && !in_cb && !in_coll && !tainted {
                    self.fail("O-UNWRAP.unique", format!("try_unwrap returned Err for object {} although the pointer was unique and no collection / finalizer / destructor was running", o));
                } else if fin_after != fin_before {
                    self.fail("O-UNWRAP.state", format!("a failed try_unwrap changed the finalization state of object {}", o));
                }
            }
        }
    }

    pub fn drop_unwrapped(&self, b: usize) {
        let v = self.t.borrow_mut().bag[b].take().expect("bag value");
        let o = self.m.borrow_mut().bag_obj[b].take().expect("bag obj");
        self.m.borrow_mut().expected_unboxed = Some(o);
        self.lib(LibCall::DropValue, move || with_val!(v, x => drop(x)));
        let mut m = self.m.borrow_mut();
        m.expected_unboxed = None;
        if m.objs[o as usize].status == Status::Unwrapped {
            m.objs[o as usize].status = Status::Dropped; // payload without an observable destructor
        }
        drop(m);
        self.sync();
    }

    /// `finalize_again` with the C12 oracle (panics inside finalizers / destructors / collections).
    pub fn fin_again_root(&self, i: usize) {
        if !HAS_FIN {
            return;
        }
        let o = self.m.borrow().root_obj[i].unwrap();
        let must_panic = {
            let m = self.m.borrow();
            World::in_fin_or_drop(&m) || m.frames.iter().any(|f| f.collector)
        };
        let p = self.root_ptr(i) as *mut AnyCc;
        let before = with_cc!(unsafe { &*p }, c => compat::already_finalized(c));
        let r = catch_unwind(AssertUnwindSafe(|| self.lib(LibCall::Other, || with_cc!(unsafe { &mut *p }, c => compat::finalize_again(c)))));
        let after = with_cc!(unsafe { &*p }, c => compat::already_finalized(c));
        match r {
            Ok(()) => {
                if must_panic {
                    self.fail("O-PHASE.finagain", format!("finalize_again on object {} did not panic inside a finalizer / destructor / collection", o));
                    return;
                }
                if after {
                    self.fail("O-FIN.rearm", format!("finalize_again on object {} left already_finalized() == true", o));
                    return;
                }
                self.m.borrow_mut().objs[o as usize].fin_flag = false;
                self.stats.borrow_mut().bump("finalize_again_ok");
            }
            Err(pl) => {
                if pl.is::<Injected>() || pl.is::<HarnessError>() {
                    std::panic::resume_unwind(pl);
                }
                self.stats.borrow_mut().bump("finalize_again_panicked");
                if !must_panic {
                    self.fail("O-CONTAIN.finagain", format!("finalize_again on object {} panicked outside any collection: {}", o, panic_message(&pl)));
                    return;
                }
                if after != before {
                    self.fail("O-PHASE.finagain", format!("a refused finalize_again changed already_finalized() of object {}", o));
                }
            }
        }
    }

    // ------------------------------------------------------------------ cleaners

    pub fn register(&self, owner_idx: usize, captured: Option<usize>, script: &Script) {
        if !HAS_CLEAN {
            return;
        }
        let owner = self.m.borrow().root_obj[owner_idx].unwrap();
        let _busy = self.busy(owner_idx);
        let Some(node) = self.node_of_root(owner_idx) else { return };
        if let Some(mp) = self.m.borrow().objs[owner as usize].map {
            // at the documented limit of Weak pointers to the cleaner's map the call would panic: skip it
            let m = self.m.borrow();
            let weak_now = m.cl_action.iter().flatten().filter(|a| m.actions[**a as usize].map == mp).count() as u32 + m.objs[mp as usize].bulk_cleanables;
            if weak_now >= MAX_WEAK {
                return;
            }
        }
        let first = self.m.borrow().objs[owner as usize].map.is_none();
        let map_id = match self.m.borrow().objs[owner as usize].map {
            Some(m) => m,
            None => u32::MAX,
        };
        let map_id = if first {
            let id = self.new_obj(ObjKind::Map, Status::Pending);
            self.m.borrow_mut().objs[id as usize].owner = Some(owner);
            id
        } else {
            map_id
        };
        let uid = {
            let mut m = self.m.borrow_mut();
            m.actions.push(ActionMeta { map: map_id, owner, script: script.clone(), runs: 0, registered: false, must_have_run: false, cleanable_alive: false });
            (m.actions.len() - 1) as u32
        };
        let cap = captured.and_then(|ci| self.clone_root(ci)).map(|(cc, t)| {
            let key = KEY_CAP | uid;
            self.m.borrow_mut().edge_insert(map_id, key, t);
            Edge::new(map_id, key, Some(cc))
        });
        let pred = first && self.predict_trigger();
        if first {
            self.note_creation(pred);
            let mut m = self.m.borrow_mut();
            m.expect_side_for = Some(map_id);
        }
        let action = move || {
            let _cap = cap;
            cb_action(uid);
        };
        let cl = self.lib(LibCall::Register, || node.cleaner.register(action));
        self.sync();
        {
            let mut m = self.m.borrow_mut();
            m.expect_side_for = None;
            if first {
                // the managed box of the cleaner map
                if let Some((base, size, align)) = m.unclaimed_boxes.pop() {
                    let ob = &mut m.objs[map_id as usize];
                    ob.box_addr = base;
                    ob.box_size = size;
                    ob.box_align = align;
                    ob.status = Status::Live;
                    m.by_box.insert(base, map_id);
                    m.objs[owner as usize].map = Some(map_id);
                } else {
                    drop(m);
                    self.fail("O-ALLOC.box", "registering the first action allocated no managed box".to_string());
                    return;
                }
            }
            m.actions[uid as usize].registered = true;
            m.actions[uid as usize].cleanable_alive = true;
            m.cl_action.push(Some(uid));
        }
        self.t.borrow_mut().cleanables.push(Some(Box::new(cl)));
        if first {
            self.check_exec("O-TRIGGER.exec", "registering the first cleaning action");
            if pred && !self.dead.get() {
                let sz = self.m.borrow().objs[map_id as usize].box_size;
                self.after_collection_returned(sz);
            }
        }
    }

    pub fn clean(&self, c: usize) {
        if !HAS_CLEAN {
            return;
        }
        let uid = self.m.borrow().cl_action[c].unwrap();
        let p = {
            let t = self.t.borrow();
            &**t.cleanables[c].as_ref().unwrap() as *const Cleanable
        };
        // The call must run the action now unless it already ran, or unless it is issued re-entrantly
        // from an action of the same cleaner (then it may be a no-op and cleaner drop runs it).
        let (runs_before, reentrant, map) = {
            let m = self.m.borrow();
            let map = m.actions[uid as usize].map;
            // re-entrant: an action of the same cleaner is running, or a clean() of the same cleaner is still in progress
            // further up (its map is borrowed until the action it removed, and that action's captures, are dropped)
            let re = m.frames.iter().any(|f| matches!(f.kind, FrameKind::Action(a) if m.actions[a as usize].map == map))
                || m.clean_stack.iter().any(|u| m.actions[*u as usize].map == map);
            (m.actions[uid as usize].runs, re, map)
        };
        let map_alive = {
            let m = self.m.borrow();
            let ob = &m.objs[map as usize];
            ob.status == Status::Live && m.objs[ob.owner.unwrap() as usize].status == Status::Live
        };
        let depth = {
            let mut m = self.m.borrow_mut();
            m.clean_stack.push(uid);
            m.clean_stack.len() - 1
        };
        self.lib(LibCall::Clean, || unsafe { &*p }.clean());
        self.m.borrow_mut().clean_stack.truncate(depth);
        self.sync();
        let (runs_after, tainted) = {
            let m = self.m.borrow();
            (m.actions[uid as usize].runs, m.objs[map as usize].tainted)
        };
        if runs_before == 0 && runs_after == 0 && !reentrant && map_alive && !tainted && !self.dead.get() {
            self.fail("O-CLEAN.clean", format!("clean() did not run cleaning action {} although it had not run yet and its cleaner is alive", uid));
        }
        self.m.borrow_mut().buf_model.insert(map);
        self.stats.borrow_mut().bump(if runs_after > runs_before { "clean_ran_action" } else { "clean_noop" });
    }

    /// Registers `n` no-op actions on the cleaner of the node at `owner_idx`, keeping the cleanables.
    pub fn bulk_register(&self, owner_idx: usize, n: u32) {
        if !HAS_CLEAN || n == 0 {
            return;
        }
        let owner = self.m.borrow().root_obj[owner_idx].unwrap();
        if self.m.borrow().objs[owner as usize].map.is_none() {
            self.register(owner_idx, None, &vec![]); // creates the map (and may start an automatic collection)
            if self.dead.get() {
                return;
            }
        }
        let Some(map_id) = self.m.borrow().objs[owner as usize].map else { return };
        let _busy = self.busy(owner_idx);
        let Some(node) = self.node_of_root(owner_idx) else { return };
        let weak_now = {
            let m = self.m.borrow();
            m.cl_action.iter().flatten().filter(|a| m.actions[**a as usize].map == map_id).count() as u32 + m.objs[map_id as usize].bulk_cleanables
        };
        let k = n.min(MAX_WEAK.saturating_sub(weak_now));
        let mut v: Vec<Cleanable> = Vec::with_capacity(k as usize);
        self.lib(LibCall::Register, || {
            for _ in 0..k {
                v.push(node.cleaner.register(move || cb_bulk_action(map_id)));
            }
        });
        self.sync();
        {
            let mut m = self.m.borrow_mut();
            m.objs[map_id as usize].bulk_registered += k;
            m.objs[map_id as usize].bulk_cleanables += k;
        }
        self.t.borrow_mut().bulk_cleanables.entry(map_id).or_default().append(&mut v);
        self.stats.borrow_mut().add("actions_registered_in_bulk", k as u64);
        if n > k {
            // one more: the Weak inside the new Cleanable cannot be created (documented limit). The action itself is
            // already in the map by then, so it runs when the Cleaner is dropped.
            self.stats.borrow_mut().bump("limit_reached_by_register");
            let r = catch_unwind(AssertUnwindSafe(|| {
                let _ = self.lib(LibCall::Register, || node.cleaner.register(move || cb_bulk_action(map_id)));
            }));
            self.stats.borrow_mut().bump("limit_attempt");
            match r {
                Ok(()) => self.fail("O-SAT.nopanic", format!("registering a cleaning action succeeded although {} Cleanables (Weak pointers to the cleaner's map) already exist", MAX_WEAK)),
                Err(p) => {
                    if p.is::<Injected>() || p.is::<HarnessError>() {
                        std::panic::resume_unwind(p);
                    }
                    if crate::exec::internal_error_message(&panic_message(&p)) {
                        self.fail("O-SAT.message", format!("register at the limit did not panic with the limit panic but with an internal error: {}", panic_message(&p)));
                    }
                    self.m.borrow_mut().objs[map_id as usize].bulk_registered += 1;
                }
            }
        }
    }

    /// clean() on the next `n` kept cleanables of that node's cleaner: each must run its action now.
    pub fn bulk_clean(&self, owner_idx: usize, n: u32) {
        if !HAS_CLEAN {
            return;
        }
        let owner = self.m.borrow().root_obj[owner_idx].unwrap();
        let Some(map_id) = self.m.borrow().objs[owner as usize].map else { return };
        let (from, have, runs_before, alive, tainted) = {
            let m = self.m.borrow();
            let ob = &m.objs[map_id as usize];
            (ob.bulk_cleaned, ob.bulk_cleanables, ob.bulk_runs, ob.status == Status::Live && m.objs[owner as usize].status == Status::Live, ob.tainted)
        };
        let k = n.min(have.saturating_sub(from));
        if k == 0 {
            return;
        }
        let ptrs: Vec<*const Cleanable> = {
            let t = self.t.borrow();
            t.bulk_cleanables.get(&map_id).map(|v| v[from as usize..(from + k) as usize].iter().map(|c| c as *const Cleanable).collect()).unwrap_or_default()
        };
        self.m.borrow_mut().bulk_clean_of = Some(map_id);
        self.lib(LibCall::Other, || {
            for p in &ptrs {
                unsafe { &**p }.clean();
            }
        });
        self.m.borrow_mut().bulk_clean_of = None;
        self.sync();
        let mut m = self.m.borrow_mut();
        m.objs[map_id as usize].bulk_cleaned += k;
        let runs_after = m.objs[map_id as usize].bulk_runs;
        m.buf_model.insert(map_id);
        if alive && !tainted && runs_after != runs_before + k {
            let msg = format!("clean() was called on {} Cleanables whose actions had not run, but {} actions ran", k, runs_after - runs_before);
            drop(m);
            self.fail("O-CLEAN.clean", msg);
        }
    }

    pub fn drop_cleanable(&self, c: usize) {
        let uid = self.m.borrow_mut().cl_action[c].take().unwrap();
        let cl = self.t.borrow_mut().cleanables[c].take().unwrap();
        let before = self.m.borrow().actions[uid as usize].runs;
        self.lib(LibCall::Other, move || drop(cl));
        self.sync();
        let mut m = self.m.borrow_mut();
        m.actions[uid as usize].cleanable_alive = false;
        if m.actions[uid as usize].runs != before {
            drop(m);
            self.fail("O-CLEAN.cleanable-drop", format!("dropping a Cleanable ran cleaning action {}", uid));
        }
    }

    // ------------------------------------------------------------------ bulk handles (C16)

    pub fn bulk_clone(&self, i: usize, n: u32) {
        let o = self.m.borrow().root_obj[i].unwrap();
        let p = self.root_ptr(i);
        let cur = World::count(&self.m.borrow(), o);
        let room = MAX_STRONG.saturating_sub(cur);
        let k = n.min(room);
        let mut v = Vec::with_capacity(k as usize);
        self.lib(LibCall::Clone, || {
            for _ in 0..k {
                v.push(crate::map_cc!(unsafe { &*p }, c => c.clone()));
            }
        });
        {
            let mut m = self.m.borrow_mut();
            m.objs[o as usize].bulk_strong += k;
            m.buf_model.remove(&o);
        }
        self.t.borrow_mut().bulk_strong.entry(o).or_default().append(&mut v);
        if n > k {
            // one more attempt exactly at the limit
            self.stats.borrow_mut().bump("limit_reached_by_clone");
            let _ = self.clone_root(i);
        }
    }

    pub fn bulk_upgrade(&self, wi: usize, n: u32) {
        let Some(Some(o)) = self.m.borrow().weak_obj[wi] else { return };
        let alive = {
            let m = self.m.borrow();
            m.objs[o as usize].status == Status::Live && World::count(&m, o) >= 1
        };
        if !alive {
            return;
        }
        let p = {
            let t = self.t.borrow();
            &**t.weaks[wi].as_ref().unwrap() as *const AnyWeak
        };
        let cur = World::count(&self.m.borrow(), o);
        let k = n.min(MAX_STRONG.saturating_sub(cur));
        let mut v = Vec::with_capacity(k as usize);
        let mut none = false;
        self.lib(LibCall::Upgrade, || {
            for _ in 0..k {
                match crate::weak_to_cc!(unsafe { &*p }, x => x.upgrade()) {
                    Some(c) => v.push(c),
                    None => {
                        none = true;
                        break;
                    }
                }
            }
        });
        let got = v.len() as u32;
        {
            let mut m = self.m.borrow_mut();
            m.objs[o as usize].bulk_strong += got;
            if got > 0 {
                m.buf_model.remove(&o);
            }
        }
        self.t.borrow_mut().bulk_strong.entry(o).or_default().append(&mut v);
        if none && !self.m.borrow().objs[o as usize].tainted {
            self.fail("O-UPG.refused", format!("upgrade returned None at top level although object {} is alive and has strong pointers", o));
            return;
        }
        if n > k {
            self.stats.borrow_mut().bump("limit_reached_by_upgrade");
            self.upgrade_weak(p, Some(o), true);
        }
    }

    pub fn bulk_weak_clone(&self, wi: usize, n: u32) {
        let Some(Some(o)) = self.m.borrow().weak_obj[wi] else { return };
        let p = {
            let t = self.t.borrow();
            &**t.weaks[wi].as_ref().unwrap() as *const AnyWeak
        };
        let cur = World::weak_count_model(&self.m.borrow(), o) + self.cleanable_weaks(o);
        let k = n.min(MAX_WEAK.saturating_sub(cur));
        let mut v = Vec::with_capacity(k as usize);
        self.lib(LibCall::Clone, || {
            for _ in 0..k {
                v.push(map_weak!(unsafe { &*p }, x => x.clone()));
            }
        });
        self.m.borrow_mut().objs[o as usize].bulk_weak += k;
        self.t.borrow_mut().bulk_weak.entry(o).or_default().append(&mut v);
        if n > k {
            self.stats.borrow_mut().bump("limit_reached_by_weak_clone");
            self.expect_limit_panic_weak(o, "Weak::clone", || {
                let _ = self.lib(LibCall::Clone, || map_weak!(unsafe { &*p }, x => x.clone()));
            });
        }
    }

    pub fn bulk_downgrade(&self, i: usize, n: u32) {
        if !HAS_WEAK {
            return;
        }
        let o = self.m.borrow().root_obj[i].unwrap();
        let p = self.root_ptr(i);
        let cur = World::weak_count_model(&self.m.borrow(), o) + self.cleanable_weaks(o);
        let k = n.min(MAX_WEAK.saturating_sub(cur));
        if k > 0 {
            let mut m = self.m.borrow_mut();
            if m.objs[o as usize].side_addr == 0 {
                m.expect_side_for = Some(o);
            }
        }
        let mut v = Vec::with_capacity(k as usize);
        self.lib(LibCall::Downgrade, || {
            for _ in 0..k {
                v.push(cc_to_weak!(unsafe { &*p }, c => compat::downgrade(c)));
            }
        });
        self.sync();
        {
            let mut m = self.m.borrow_mut();
            m.expect_side_for = None;
            m.objs[o as usize].bulk_weak += k;
            if k > 0 {
                m.buf_model.remove(&o);
                m.objs[o as usize].downgraded_seen = true;
            }
        }
        self.t.borrow_mut().bulk_weak.entry(o).or_default().append(&mut v);
        if n > k {
            self.stats.borrow_mut().bump("limit_reached_by_downgrade");
            let _ = self.downgrade_root(i);
        }
    }

    fn cleanable_weaks(&self, _o: ObjId) -> u32 {
        0
    }

    pub fn bulk_drop(&self, i: usize, n: u32) {
        let o = self.m.borrow().root_obj[i].unwrap();
        let mut v = {
            let mut t = self.t.borrow_mut();
            let e = t.bulk_strong.entry(o).or_default();
            let k = (n as usize).min(e.len());
            e.split_off(e.len() - k)
        };
        let k = v.len() as u32;
        if k == 0 {
            return;
        }
        // the table handle at `i` still exists, so none of these drops is the last one
        self.m.borrow_mut().objs[o as usize].bulk_strong -= k;
        self.lib(LibCall::DropCc, || v.clear());
        let mut m = self.m.borrow_mut();
        if m.objs[o as usize].status == Status::Live {
            m.buf_model.insert(o);
            m.objs[o as usize].was_buffered = true;
        }
    }

    pub fn bulk_weak_drop(&self, wi: usize, n: u32) {
        let Some(Some(o)) = self.m.borrow().weak_obj[wi] else { return };
        let mut v = {
            let mut t = self.t.borrow_mut();
            let e = t.bulk_weak.entry(o).or_default();
            let k = (n as usize).min(e.len());
            e.split_off(e.len() - k)
        };
        let k = v.len() as u32;
        self.m.borrow_mut().objs[o as usize].bulk_weak -= k;
        self.lib(LibCall::Other, || v.clear());
        self.sync();
    }

    // ------------------------------------------------------------------ forwarding traits / ptr_eq (C20)

    pub fn compare(&self, i: usize, j: usize) {
        use std::borrow::Borrow;
        use std::hash::{Hash, Hasher};
        let (oi, oj) = {
            let m = self.m.borrow();
            (m.root_obj[i].unwrap(), m.root_obj[j].unwrap())
        };
        let (p, q) = (self.root_ptr(i), self.root_ptr(j));
        let (a, b) = unsafe { (&*p, &*q) };
        fn h<T: Hash + ?Sized>(t: &T) -> u64 {
            let mut s = std::collections::hash_map::DefaultHasher::new();
            t.hash(&mut s);
            s.finish()
        }
        let peq = with_cc_pair!(a, b, x, y => Some(Cc::ptr_eq(x, y)), None);
        if let Some(e) = peq {
            if e != (oi == oj) {
                self.fail("O-ADDR.ptr_eq", format!("ptr_eq on handles of objects {} and {} returned {}", oi, oj, e));
                return;
            }
        }
        // AsRef / Borrow / Deref agree
        fn addrs<T: Trace + 'static>(x: &Cc<T>) -> bool {
            let d = (&**x) as *const T as usize;
            let r = AsRef::<T>::as_ref(x) as *const T as usize;
            let b = Borrow::<T>::borrow(x) as *const T as usize;
            d == r && d == b
        }
        let same_addr = with_cc!(a, x => addrs(x));
        if !same_addr {
            self.fail("O-ADDR.asref", format!("Deref / AsRef / Borrow on a handle of object {} return different addresses", oi));
            return;
        }
        let mut bad: Option<&'static str> = None;
        match (a, b) {
            (AnyCc::KI(x), AnyCc::KI(y)) => {
                let (u, v): (&KeyI, &KeyI) = (x, y);
                if (x == y) != (u == v) || (x != y) != (u != v) { bad = Some("eq/ne"); }
                if x.partial_cmp(y) != u.partial_cmp(v) { bad = Some("partial_cmp"); }
                if x.cmp(y) != u.cmp(v) { bad = Some("cmp"); }
                if (x < y) != (u < v) { bad = Some("lt"); }
                if (x <= y) != (u <= v) { bad = Some("le"); }
                if (x > y) != (u > v) { bad = Some("gt"); }
                if (x >= y) != (u >= v) { bad = Some("ge"); }
                if h(x) != h(u) { bad = Some("hash"); }
                if format!("{:?}", x) != format!("{:?}", u) || format!("{:#?}", x) != format!("{:#?}", u) || format!("{:10?}", x) != format!("{:10?}", u) { bad = Some("Debug"); }
                if format!("{}", x) != format!("{}", u) || format!("{:7}", x) != format!("{:7}", u) || format!("{:<+6}", x) != format!("{:<+6}", u) || format!("{:*^9}", x) != format!("{:*^9}", u) || format!("{:05}", x) != format!("{:05}", u) { bad = Some("Display"); }
                self.stats.borrow_mut().bump("forwarding_pair_int");
            }
            (AnyCc::KF(x), AnyCc::KF(y)) => {
                let (u, v): (&KeyF, &KeyF) = (x, y);
                if (x == y) != (u == v) || (x != y) != (u != v) { bad = Some("eq/ne"); }
                if x.partial_cmp(y) != u.partial_cmp(v) { bad = Some("partial_cmp"); }
                if (x < y) != (u < v) { bad = Some("lt"); }
                if (x <= y) != (u <= v) { bad = Some("le"); }
                if (x > y) != (u > v) { bad = Some("gt"); }
                if (x >= y) != (u >= v) { bad = Some("ge"); }
                if format!("{:?}", x) != format!("{:?}", u) || format!("{:#?}", x) != format!("{:#?}", u) { bad = Some("Debug"); }
                if format!("{}", x) != format!("{}", u) || format!("{:9.2}", x) != format!("{:9.2}", u) || format!("{:+}", x) != format!("{:+}", u) || format!("{:<08.3}", x) != format!("{:<08.3}", u) { bad = Some("Display"); }
                self.stats.borrow_mut().bump("forwarding_pair_float");
            }
            _ => {}
        }
        if let Some(op) = bad {
            self.fail("O-FWD.op", format!("{} on Cc<T> differs from the same operation on T (objects {} and {})", op, oi, oj));
        }
    }

    /// Stores `n` clones of the target in the owner's (traced) bulk vector.
    pub fn bulk_edges(&self, owner_idx: usize, target_idx: usize, n: u32) {
        let owner = self.m.borrow().root_obj[owner_idx].unwrap();
        let target = self.m.borrow().root_obj[target_idx].unwrap();
        let _busy = self.busy(owner_idx);
        let Some(node) = self.node_of_root(owner_idx) else { return };
        let p = self.root_ptr(target_idx);
        let cur = World::count(&self.m.borrow(), target);
        let k = n.min(MAX_STRONG.saturating_sub(cur));
        let base = node.bulk.borrow().len() as u32 + self.m.borrow().objs[owner as usize].pins_next; // unique keys
        let mut v: Vec<Edge> = Vec::with_capacity(k as usize);
        self.lib(LibCall::Clone, || {
            for i in 0..k {
                v.push(Edge::new(owner, KEY_BULK | (base + i), Some(crate::map_cc!(unsafe { &*p }, c => c.clone()))));
            }
        });
        {
            let mut m = self.m.borrow_mut();
            for i in 0..k {
                m.edge_insert(owner, KEY_BULK | (base + i), target);
            }
            m.objs[owner as usize].pins_next += k;
            m.buf_model.remove(&target);
        }
        node.bulk.borrow_mut().append(&mut v);
        self.stats.borrow_mut().add("bulk_traced_edges", k as u64);
        if n > k {
            self.stats.borrow_mut().bump("limit_reached_by_clone");
            let _ = self.clone_root(target_idx);
        }
    }

    pub fn bulk_edges_drop(&self, owner_idx: usize, n: u32) {
        let _busy = self.busy(owner_idx);
        let Some(node) = self.node_of_root(owner_idx) else { return };
        let v: Vec<Edge> = {
            let mut b = node.bulk.borrow_mut();
            let k = (n as usize).min(b.len());
            let at = b.len() - k;
            b.split_off(at)
        };
        drop(v); // each Edge reports its own death
        self.sync();
    }

    /// Debug formatting through `n` nested Cc pointers (objects outside the mirror, created and released on the spot).
    pub fn debug_chain(&self, n: u32) {
        let auto_was = compat::cfg_read().map(|c| c.0);
        if auto_was == Some(true) {
            compat::cfg_set_auto(false);
        }
        let n = n.clamp(1, 400);
        let mut head: Option<Cc<Nest>> = None;
        let mut phead: Option<Box<plain::Nest>> = None;
        for k in 0..n {
            head = Some(Cc::new(Nest { key: k, next: head.take() }));
            phead = Some(Box::new(plain::Nest { key: k, next: phead.take() }));
        }
        let (a, b) = (format!("{:?}", head.as_ref().unwrap()), format!("{:?}", phead.as_ref().unwrap()));
        // (pretty printing nests one padding adapter per level: quadratic, so only for short chains)
        let (c, d) = if n <= 40 { (format!("{:#?}", head.as_ref().unwrap()), format!("{:#?}", phead.as_ref().unwrap())) } else { (String::new(), String::new()) };
        drop(head);
        if auto_was == Some(true) {
            compat::cfg_set_auto(true);
        }
        self.sync();
        self.stats.borrow_mut().bump("debug_chain_formatted");
        if a != b || c != d {
            let at = a.bytes().zip(b.bytes()).position(|(x, y)| x != y).unwrap_or(a.len().min(b.len()));
            self.fail("O-FWD.debug-nested", format!("Debug output of a chain of {} nested Cc differs from the same chain of plain values (first difference at byte {})", n, at));
        }
    }

    /// Comparison operators of `Cc<Link>` on two linked structures (the left one possibly cyclic, the right one always
    /// finite) against a model that walks plain index tables.
    pub fn cmp_chain(&self, left: i64, right: i64, diff: i64) {
        use std::cmp::Ordering;
        let auto_was = compat::cfg_read().map(|c| c.0);
        if auto_was == Some(true) {
            compat::cfg_set_auto(false);
        }
        let m = ((left & 0xFF).clamp(1, 6)) as usize;
        let cyclic = (left >> 8) & 1 == 1;
        let entry = (((left >> 12) & 0xF) as usize) % m;
        let n = right.clamp(1, 24) as usize;
        let (dpos, dsign) = ((diff.max(0) / 2) as usize, if diff % 2 == 0 { 1 } else { -1 });
        // tables: (value, next index)
        let lt: Vec<(i64, Option<usize>)> = (0..m).map(|i| (10 + i as i64, if i + 1 < m { Some(i + 1) } else if cyclic { Some(entry) } else { None })).collect();
        let mut rt: Vec<(i64, Option<usize>)> = Vec::new();
        let mut li = Some(0usize);
        for j in 0..n {
            // the right structure unrolls the left one; past its end (finite left) it continues with fresh values
            let base = match li {
                Some(i) => lt[i].0,
                None => 100 + j as i64,
            };
            rt.push((if j == dpos { base + dsign } else { base }, if j + 1 < n { Some(j + 1) } else { None }));
            li = li.and_then(|i| lt[i].1);
        }
        let model = {
            let (mut i, mut j) = (0usize, 0usize);
            loop {
                match lt[i].0.cmp(&rt[j].0) {
                    Ordering::Equal => {}
                    o => break o,
                }
                match (lt[i].1, rt[j].1) {
                    (None, None) => break Ordering::Equal,
                    (None, Some(_)) => break Ordering::Less,
                    (Some(_), None) => break Ordering::Greater,
                    (Some(a), Some(b)) => {
                        i = a;
                        j = b;
                    }
                }
            }
        };
        let build = |t: &[(i64, Option<usize>)]| -> Vec<Cc<Link>> {
            let nodes: Vec<Cc<Link>> = t.iter().map(|(v, _)| Cc::new(Link { v: *v, next: std::cell::RefCell::new(None) })).collect();
            for (i, (_, nx)) in t.iter().enumerate() {
                if let Some(k) = nx {
                    *nodes[i].next.borrow_mut() = Some(nodes[*k].clone());
                }
            }
            nodes
        };
        let (ln, rn) = (build(&lt), build(&rt));
        let (l, r) = (&ln[0], &rn[0]);
        // by-value operations: which allocation comes back (std: max returns the second operand on ties, min and
        // clamp the first)
        let twin = if cyclic { None } else { Some(build(&lt)) };
        let by_value: [(&str, bool); 6] = [
            ("Ord::max(l, r)", Cc::ptr_eq(&Ord::max(l.clone(), r.clone()), if model == Ordering::Greater { l } else { r })),
            ("Ord::min(l, r)", Cc::ptr_eq(&Ord::min(l.clone(), r.clone()), if model == Ordering::Greater { r } else { l })),
            ("Ord::max(r, l)", Cc::ptr_eq(&Ord::max(r.clone(), l.clone()), if model == Ordering::Less { r } else { l })),
            ("Ord::max(l, twin of l)", twin.as_ref().map_or(true, |t| Cc::ptr_eq(&Ord::max(l.clone(), t[0].clone()), &t[0]))),
            ("Ord::min(l, twin of l)", twin.as_ref().map_or(true, |t| Cc::ptr_eq(&Ord::min(l.clone(), t[0].clone()), l))),
            ("l.clamp(twin, twin)", twin.as_ref().map_or(true, |t| Cc::ptr_eq(&l.clone().clamp(t[0].clone(), t[0].clone()), l))),
        ];
        if let Some(t) = twin {
            drop(t);
        }
        let got: [(&str, bool); 12] = [
            ("l == r", (l == r) == (model == Ordering::Equal)),
            ("l != r", (l != r) == (model != Ordering::Equal)),
            ("r == l", (r == l) == (model == Ordering::Equal)),
            ("l.partial_cmp(r)", l.partial_cmp(r) == Some(model)),
            ("r.partial_cmp(l)", r.partial_cmp(l) == Some(model.reverse())),
            ("l.cmp(r)", l.cmp(r) == model),
            ("r.cmp(l)", r.cmp(l) == model.reverse()),
            ("l < r", (l < r) == (model == Ordering::Less)),
            ("l <= r", (l <= r) == (model != Ordering::Greater)),
            ("l > r", (l > r) == (model == Ordering::Greater)),
            ("l >= r", (l >= r) == (model != Ordering::Less)),
            ("l == l.clone()", !cyclic && *l == l.clone() || cyclic),
        ];
        // release everything by reference counting: open the cycle first
        for x in ln.iter().chain(rn.iter()) {
            *x.next.borrow_mut() = None;
        }
        drop(ln);
        drop(rn);
        if auto_was == Some(true) {
            compat::cfg_set_auto(true);
        }
        self.sync();
        self.stats.borrow_mut().bump("linked_structures_compared");
        if let Some((what, _)) = got.iter().chain(by_value.iter()).find(|g| !g.1) {
            self.fail(
                "O-FWD.linked",
                format!("`{}` on Cc<Link> disagrees with the comparison of the values (left: {} nodes{}, right: chain of {} that {}; the values compare {:?})", what, m,
                    if cyclic { format!(", last one pointing back at node {}", entry) } else { String::new() }, n,
                    if dpos < n { format!("differs from the left structure's unrolling at position {}", dpos) } else { "unrolls the left structure".to_string() }, model),
            );
        }
    }

    // ------------------------------------------------------------------ configuration

    pub fn cfg_op(&self, code: OpCode, v: i64) {
        if !HAS_AUTO {
            return;
        }
        match code {
            OpCode::CfgAuto => {
                if compat::cfg_set_auto(v != 0) == CfgAccess::Ok {
                    self.m.borrow_mut().cfg.auto = v != 0;
                }
            }
            OpCode::CfgBuffered => {
                let n = v.max(0) as u32;
                if compat::cfg_set_buffered(n) == CfgAccess::Ok {
                    self.m.borrow_mut().cfg.buffered = n;
                }
            }
            OpCode::CfgPercent => {
                let pm = v.max(0) as u32;
                if pm > 1000 {
                    // documented panic, configuration unchanged
                    let r = catch_unwind(AssertUnwindSafe(|| compat::cfg_set_percent(pm as f64 / 1000.0)));
                    if r.is_ok() {
                        self.fail("O-TRIGGER.config", format!("set_adjustment_percent({}) did not panic", pm as f64 / 1000.0));
                    }
                    self.stats.borrow_mut().bump("invalid_percent_rejected");
                } else if compat::cfg_set_percent(pm as f64 / 1000.0) == CfgAccess::Ok {
                    self.m.borrow_mut().cfg.permille = pm;
                }
            }
            _ => {}
        }
        let mut m = self.m.borrow_mut();
        m.cfg_known = true;
        m.threshold_changed = true;
    }

    /// Whole-configuration replacement (the setters are bypassed): default, save a clone, assign the clone back.
    #[cfg(feature = "auto")]
    pub fn cfg_replace(&self, mode: i64) {
        match mode.rem_euclid(3) {
            0 => {
                if compat::cfg_assign(Default::default()) == CfgAccess::Ok {
                    let mut m = self.m.borrow_mut();
                    m.cfg = m.fresh_cfg;
                    m.cfg_known = true;
                    m.last_threshold = 0;
                }
            }
            1 => {
                if let Some(c) = compat::cfg_clone() {
                    let k = self.m.borrow().cfg;
                    *self.saved_cfg.borrow_mut() = Some((c, k));
                }
            }
            _ => {
                let saved = self.saved_cfg.borrow().clone();
                if let Some((c, k)) = saved {
                    if compat::cfg_assign(c) == CfgAccess::Ok {
                        let mut m = self.m.borrow_mut();
                        m.cfg = k;
                        m.cfg_known = true;
                        m.last_threshold = 0;
                    }
                }
            }
        }
        self.stats.borrow_mut().bump("configuration_replaced_wholesale");
    }
    #[cfg(not(feature = "auto"))]
    pub fn cfg_replace(&self, _mode: i64) {}

    pub fn apply_knobs(&self, k: &Knobs) {
        if !HAS_AUTO {
            return;
        }
        // the configuration is still the fresh one of this thread: its byte threshold is "the initial value"
        let fresh = compat::cfg_read();
        let initial = fresh.map_or(0, |c| c.3);
        compat::cfg_set_auto(k.auto);
        compat::cfg_set_buffered(k.buffered);
        compat::cfg_set_percent(k.permille.min(1000) as f64 / 1000.0);
        let mut m = self.m.borrow_mut();
        m.initial_threshold = initial;
        if let Some(c) = fresh {
            m.fresh_cfg = Knobs { auto: c.0, buffered: c.1, permille: (c.2 * 1000.0).round() as u32 };
        }
        m.cfg = Knobs { auto: k.auto, buffered: k.buffered, permille: k.permille.min(1000) };
        m.cfg_known = true;
    }
}

fn leaf_val_ok(v: &AnyVal, id: ObjId) -> bool {
    crate::leaf_val_bytes!(v, |b: &[u8]| check_pattern(b, id))
}

#[allow(unused_imports)]
use {with_weak as _};
