//! Harness object types. Everything the collector can call back into lives here and reports to the
//! world (`crate::world::cb_*`). Containers are built only from types the crate implements `Trace` for.

use std::cell::{Cell, RefCell};
use std::mem::ManuallyDrop;
use std::panic::AssertUnwindSafe;

use rust_cc::*;

use crate::compat::Cleaner;
use crate::leaves::{AnyCc, AnyWeak};
use crate::program::Script;
use crate::world as W;

pub const MAGIC: u64 = 0x5EED_CAFE_F00D_0000;
pub const DEAD: u64 = 0xDEAD_DEAD_DEAD_DEAD;

// Edge keys: kind in the top byte.
pub const KEY_SLOT: u32 = 0 << 24;
pub const KEY_PIN: u32 = 1 << 24;
pub const KEY_CAP: u32 = 2 << 24;
pub const KEY_BULK: u32 = 3 << 24; // traced positions of the node's bulk vector (thousands of pointers to one object)

/// One owning pointer position. Dropping is reported (begin / end) so that the mirror knows exactly
/// which `Cc`s exist at every instant; tracing and finalization forwarding are counted per position.
pub struct Edge {
    pub owner: u32,
    pub key: u32,
    pub tprobe: Cell<u32>,
    pub fprobe: Cell<u32>,
    cc: ManuallyDrop<Option<AnyCc>>,
}

impl Edge {
    pub fn new(owner: u32, key: u32, cc: Option<AnyCc>) -> Edge {
        Edge { owner, key, tprobe: Cell::new(0), fprobe: Cell::new(0), cc: ManuallyDrop::new(cc) }
    }
    pub fn get(&self) -> Option<&AnyCc> {
        self.cc.as_ref()
    }
    pub fn take(&mut self) -> Option<AnyCc> {
        self.cc.take()
    }
    pub fn set(&mut self, cc: AnyCc) -> Option<AnyCc> {
        self.cc.replace(cc)
    }
}

unsafe impl Trace for Edge {
    fn trace(&self, ctx: &mut Context<'_>) {
        self.tprobe.set(self.tprobe.get() + 1);
        W::cb_edge_trace(self.owner, self.key);
        self.cc.trace(ctx);
    }
}

impl Finalize for Edge {
    fn finalize(&self) {
        self.fprobe.set(self.fprobe.get() + 1);
        // keep forwarding through ManuallyDrop -> Option -> the handle: it must end in the empty `Finalize for Cc<T>`
        self.cc.finalize();
    }
}

impl Drop for Edge {
    fn drop(&mut self) {
        let has = self.cc.is_some();
        let _g = W::cb_edge_drop_begin(self.owner, self.key, has);
        // Equivalent to the drop glue of a plain `Option<Cc<_>>` field, made explicit only to bracket it.
        unsafe { ManuallyDrop::drop(&mut self.cc) };
    }
}

pub struct Mk {
    pub owner: u32,
    pub next: u32,
    pub n: usize,
    pub pattern: u32,
}

impl Mk {
    fn bit(&mut self) -> bool {
        let b = self.pattern & 1 != 0;
        self.pattern >>= 1;
        b
    }
}

pub trait Shape: Sized {
    fn make(mk: &mut Mk) -> Self;
    fn walk<'a>(&'a self, out: &mut Vec<&'a Edge>);
    fn walk_mut<'a>(&'a mut self, out: &mut Vec<&'a mut Edge>);
}

impl Shape for Edge {
    fn make(mk: &mut Mk) -> Self {
        let k = mk.next;
        mk.next += 1;
        Edge::new(mk.owner, KEY_SLOT | k, None)
    }
    fn walk<'a>(&'a self, out: &mut Vec<&'a Edge>) {
        out.push(self)
    }
    fn walk_mut<'a>(&'a mut self, out: &mut Vec<&'a mut Edge>) {
        out.push(self)
    }
}

impl<T: Shape> Shape for Vec<T> {
    fn make(mk: &mut Mk) -> Self {
        (0..mk.n).map(|_| T::make(mk)).collect()
    }
    fn walk<'a>(&'a self, out: &mut Vec<&'a Edge>) {
        for x in self {
            x.walk(out)
        }
    }
    fn walk_mut<'a>(&'a mut self, out: &mut Vec<&'a mut Edge>) {
        for x in self {
            x.walk_mut(out)
        }
    }
}

impl<T: Shape> Shape for Box<[T]> {
    fn make(mk: &mut Mk) -> Self {
        (0..mk.n).map(|_| T::make(mk)).collect::<Vec<_>>().into_boxed_slice()
    }
    fn walk<'a>(&'a self, out: &mut Vec<&'a Edge>) {
        for x in self.iter() {
            x.walk(out)
        }
    }
    fn walk_mut<'a>(&'a mut self, out: &mut Vec<&'a mut Edge>) {
        for x in self.iter_mut() {
            x.walk_mut(out)
        }
    }
}

impl<T: Shape, const N: usize> Shape for [T; N] {
    fn make(mk: &mut Mk) -> Self {
        std::array::from_fn(|_| T::make(mk))
    }
    fn walk<'a>(&'a self, out: &mut Vec<&'a Edge>) {
        for x in self {
            x.walk(out)
        }
    }
    fn walk_mut<'a>(&'a mut self, out: &mut Vec<&'a mut Edge>) {
        for x in self {
            x.walk_mut(out)
        }
    }
}

macro_rules! tuple_shape {
    ($($t:ident),+) => {
        #[allow(non_snake_case)]
        impl<$($t: Shape),+> Shape for ($($t,)+) {
            fn make(mk: &mut Mk) -> Self { $( let $t = $t::make(mk); )+ ($($t,)+) }
            fn walk<'a>(&'a self, out: &mut Vec<&'a Edge>) { let ($($t,)+) = self; $( $t.walk(out); )+ }
            fn walk_mut<'a>(&'a mut self, out: &mut Vec<&'a mut Edge>) { let ($($t,)+) = self; $( $t.walk_mut(out); )+ }
        }
    };
}
tuple_shape!(A);
tuple_shape!(A, B);
tuple_shape!(A, B, C);
tuple_shape!(A, B, C, D);
tuple_shape!(A, B, C, D, E);
tuple_shape!(A, B, C, D, E, F);
tuple_shape!(A, B, C, D, E, F, G);
tuple_shape!(A, B, C, D, E, F, G, H);
tuple_shape!(A, B, C, D, E, F, G, H, I);
tuple_shape!(A, B, C, D, E, F, G, H, I, J);
tuple_shape!(A, B, C, D, E, F, G, H, I, J, K);
tuple_shape!(A, B, C, D, E, F, G, H, I, J, K, L);

impl<T: Shape> Shape for Option<T> {
    fn make(mk: &mut Mk) -> Self {
        if mk.bit() {
            None
        } else {
            Some(T::make(mk))
        }
    }
    fn walk<'a>(&'a self, out: &mut Vec<&'a Edge>) {
        if let Some(x) = self {
            x.walk(out)
        }
    }
    fn walk_mut<'a>(&'a mut self, out: &mut Vec<&'a mut Edge>) {
        if let Some(x) = self {
            x.walk_mut(out)
        }
    }
}

impl<T: Shape, E: Shape> Shape for Result<T, E> {
    fn make(mk: &mut Mk) -> Self {
        if mk.bit() {
            Err(E::make(mk))
        } else {
            Ok(T::make(mk))
        }
    }
    fn walk<'a>(&'a self, out: &mut Vec<&'a Edge>) {
        match self {
            Ok(x) => x.walk(out),
            Err(x) => x.walk(out),
        }
    }
    fn walk_mut<'a>(&'a mut self, out: &mut Vec<&'a mut Edge>) {
        match self {
            Ok(x) => x.walk_mut(out),
            Err(x) => x.walk_mut(out),
        }
    }
}

macro_rules! deref_shape {
    ($w:ident, $mk:expr) => {
        impl<T: Shape> Shape for $w<T> {
            fn make(mk: &mut Mk) -> Self {
                ($mk)(T::make(mk))
            }
            fn walk<'a>(&'a self, out: &mut Vec<&'a Edge>) {
                (**self).walk(out)
            }
            fn walk_mut<'a>(&'a mut self, out: &mut Vec<&'a mut Edge>) {
                (**self).walk_mut(out)
            }
        }
    };
}
deref_shape!(Box, Box::new);
deref_shape!(ManuallyDrop, ManuallyDrop::new);
deref_shape!(AssertUnwindSafe, AssertUnwindSafe);

impl<T: Shape> Shape for RefCell<T> {
    fn make(mk: &mut Mk) -> Self {
        RefCell::new(T::make(mk))
    }
    fn walk<'a>(&'a self, out: &mut Vec<&'a Edge>) {
        // The harness never keeps a mutable borrow of an inner cell alive across calls.
        unsafe { &*self.as_ptr() }.walk(out)
    }
    fn walk_mut<'a>(&'a mut self, out: &mut Vec<&'a mut Edge>) {
        self.get_mut().walk_mut(out)
    }
}

macro_rules! stores {
    ($( $v:ident : $t:ty ),* $(,)?) => {
        #[derive(Trace)]
        #[rust_cc(unsafe_no_drop)]
        pub enum Store { $($v($t)),* }

        impl Finalize for Store {
            fn finalize(&self) { match self { $(Store::$v(x) => x.finalize()),* } }
        }

        impl Store {
            pub fn walk<'a>(&'a self, out: &mut Vec<&'a Edge>) { match self { $(Store::$v(x) => x.walk(out)),* } }
            pub fn walk_mut<'a>(&'a mut self, out: &mut Vec<&'a mut Edge>) { match self { $(Store::$v(x) => x.walk_mut(out)),* } }
        }

        pub const STORE_CTORS: &[(&str, fn(&mut Mk) -> Store)] = &[ $((stringify!($v), |mk| Store::$v(<$t as Shape>::make(mk)))),* ];
    };
}

type E = Edge;
stores! {
    V: Vec<E>, BS: Box<[E]>,
    A0: [E; 0], A1: [E; 1], A2: [E; 2], A3: [E; 3], A8: [E; 8], A32: [E; 32],
    T1: (E,), T2: (E, E), T3: (E, E, E), T4: (E, E, E, E), T5: (E, E, E, E, E), T6: (E, E, E, E, E, E),
    T7: (E, E, E, E, E, E, E), T8: (E, E, E, E, E, E, E, E), T9: (E, E, E, E, E, E, E, E, E),
    T10: (E, E, E, E, E, E, E, E, E, E), T11: (E, E, E, E, E, E, E, E, E, E, E), T12: (E, E, E, E, E, E, E, E, E, E, E, E),
    O: Option<E>, R: Result<E, (E, E)>, B: Box<E>, MD: ManuallyDrop<E>, AUS: AssertUnwindSafe<E>, RC: RefCell<E>,
    VO: Vec<Option<E>>, BA: (Box<E>, [E; 2]), OBT: Option<Box<(E, E)>>, AV: [Vec<E>; 2], TRO: (Result<E, E>, Option<E>),
    RCV: RefCell<Vec<E>>, VB: Vec<Box<E>>, BV: Box<Vec<E>>, MDV: ManuallyDrop<Vec<E>>, AUT: AssertUnwindSafe<(E, E)>,
    ORC: Option<RefCell<E>>, VT: Vec<(E, E)>, AO: [Option<E>; 3], BBS: Box<Box<[E]>>, RR: Result<Vec<E>, Box<E>>,
    VMD: Vec<ManuallyDrop<E>>, AOMD: [Option<ManuallyDrop<E>>; 2], BSMD: Box<[ManuallyDrop<Option<E>>]>, VAUS: Vec<AssertUnwindSafe<E>>,
    VRC: Vec<RefCell<E>>, TMD: (ManuallyDrop<E>, E),
}

/// (kind name, Store variant, n, option/result pattern (bit = None/Err), leaks its edges on drop)
pub const STORE_KINDS: &[(&str, &str, usize, u32, bool)] = &[
    ("vec1", "V", 1, 0, false), ("vec2", "V", 2, 0, false), ("vec3", "V", 3, 0, false), ("vec0", "V", 0, 0, false),
    ("vec5", "V", 5, 0, false), ("vec9", "V", 9, 0, false), ("bslice3", "BS", 3, 0, false), ("bslice0", "BS", 0, 0, false),
    ("arr0", "A0", 0, 0, false), ("arr1", "A1", 0, 0, false), ("arr2", "A2", 0, 0, false), ("arr3", "A3", 0, 0, false),
    ("arr8", "A8", 0, 0, false), ("arr32", "A32", 0, 0, false),
    ("tup1", "T1", 0, 0, false), ("tup2", "T2", 0, 0, false), ("tup3", "T3", 0, 0, false), ("tup4", "T4", 0, 0, false),
    ("tup5", "T5", 0, 0, false), ("tup6", "T6", 0, 0, false), ("tup7", "T7", 0, 0, false), ("tup8", "T8", 0, 0, false),
    ("tup9", "T9", 0, 0, false), ("tup10", "T10", 0, 0, false), ("tup11", "T11", 0, 0, false), ("tup12", "T12", 0, 0, false),
    ("some", "O", 0, 0, false), ("none", "O", 0, 1, false), ("ok", "R", 0, 0, false), ("err", "R", 0, 1, false),
    ("box", "B", 0, 0, false), ("mdrop", "MD", 0, 0, true), ("aus", "AUS", 0, 0, false), ("cell", "RC", 0, 0, false),
    ("vec_opt", "VO", 3, 0b010, false), ("box_arr", "BA", 0, 0, false), ("opt_box_tup", "OBT", 0, 0, false), ("opt_box_tup_none", "OBT", 0, 1, false),
    ("arr_vec", "AV", 2, 0, false), ("tup_res_opt", "TRO", 0, 0b00, false), ("tup_err_none", "TRO", 0, 0b11, false), ("tup_err_some", "TRO", 0, 0b01, false),
    ("cell_vec", "RCV", 2, 0, false), ("vec_box", "VB", 2, 0, false), ("box_vec", "BV", 3, 0, false), ("mdrop_vec", "MDV", 2, 0, true),
    ("aus_tup", "AUT", 0, 0, false), ("opt_cell", "ORC", 0, 0, false), ("vec_tup", "VT", 2, 0, false), ("arr_opt", "AO", 0, 0b100, false),
    ("box_bslice", "BBS", 2, 0, false), ("res_vec", "RR", 2, 0, false), ("res_box", "RR", 2, 1, false),
    ("vec_mdrop", "VMD", 2, 0, true), ("arr_opt_mdrop", "AOMD", 0, 0, true), ("bslice_mdrop_opt", "BSMD", 2, 0, true), ("vec_aus", "VAUS", 2, 0, false),
    ("vec_cell", "VRC", 2, 0, false), ("tup_mdrop", "TMD", 0, 0, true),
];

pub fn make_store(kind: usize, owner: u32) -> (Store, u32) {
    // The crate's internal `pedantic-debug-assertions` feature asserts that every box the collector frees has a zero
    // reference counter, which does not hold for a garbage cycle closed through a `ManuallyDrop<Cc>` position (that Cc
    // is traced but never dropped). That feature is outside the configurations the properties quantify over, so in
    // the `ped` build the leaking container kinds are replaced by a plain Vec instead of raising an alarm.
    let kind = if cfg!(feature = "ped") && STORE_KINDS[kind].4 { STORE_KINDS.iter().position(|k| k.0 == "vec2").unwrap() } else { kind };
    let (_, variant, n, pattern, _) = STORE_KINDS[kind];
    let ctor = STORE_CTORS.iter().find(|c| c.0 == variant).expect("store variant").1;
    let mut mk = Mk { owner, next: 0, n, pattern };
    let s = ctor(&mut mk);
    (s, mk.next)
}

pub fn store_leaks(kind: usize) -> bool {
    STORE_KINDS[kind].4
}

thread_local! {
    /// Finalize calls received by zero-sized elements since the last reset.
    pub static ZFIN: Cell<u32> = const { Cell::new(0) };
}

/// A zero-sized element with a counting finalizer (forwarding through sequences must not skip it).
pub struct Z;
unsafe impl Trace for Z {
    fn trace(&self, _: &mut Context<'_>) {}
}
impl Finalize for Z {
    fn finalize(&self) {
        let _ = ZFIN.try_with(|c| c.set(c.get() + 1));
    }
}

#[derive(Trace)]
#[rust_cc(unsafe_no_drop)]
pub struct Zsts {
    v: Vec<Z>,
    a: [Z; 3],
    b: Box<[Z]>,
    t: (Z, Z),
    o: Option<Z>,
    vv: Vec<(Z, Z)>,
    r: RefCell<[Z; 2]>,
}
pub const N_ZSTS: u32 = 2 + 3 + 1 + 2 + 1 + 4 + 2;
impl Zsts {
    pub fn new() -> Zsts {
        Zsts { v: vec![Z, Z], a: [Z, Z, Z], b: vec![Z].into_boxed_slice(), t: (Z, Z), o: Some(Z), vv: vec![(Z, Z), (Z, Z)], r: RefCell::new([Z, Z]) }
    }
}
impl Finalize for Zsts {
    fn finalize(&self) {
        self.v.finalize();
        self.a.finalize();
        self.b.finalize();
        self.t.finalize();
        self.o.finalize();
        self.vv.finalize();
        self.r.finalize();
    }
}

/// First traced field: announces the trace call (and is a fault site).
pub struct Head {
    pub id: u32,
    pub canary: Cell<u64>,
}

unsafe impl Trace for Head {
    fn trace(&self, _: &mut Context<'_>) {
        W::cb_trace_enter(self.id, self.canary.get());
    }
}
impl Finalize for Head {}

/// Last traced field: the census of this trace call; its drop marks the end of the drop glue.
pub struct Tail {
    pub id: u32,
}

unsafe impl Trace for Tail {
    fn trace(&self, _: &mut Context<'_>) {
        W::cb_trace_exit(self.id);
    }
}
impl Finalize for Tail {}
impl Drop for Tail {
    fn drop(&mut self) {
        W::cb_destroy_exit(self.id);
    }
}

/// A pointer position the owner does NOT trace (an "untraced owning field").
pub struct Pins(pub RefCell<Vec<Edge>>);

#[derive(Trace)]
#[rust_cc(unsafe_no_drop)]
pub struct Node {
    pub head: Head,
    pub store: RefCell<Store>,
    pub bulk: RefCell<Vec<Edge>>,
    pub weaks: RefCell<Vec<AnyWeak>>,
    pub self_weak: RefCell<Option<AnyWeak>>,
    pub cleaner: Cleaner,
    pub zsts: Zsts,
    pub marker: std::marker::PhantomData<Edge>,
    #[rust_cc(ignore)]
    pub pins: Pins,
    #[rust_cc(ignore)]
    pub fin: Script,
    #[rust_cc(ignore)]
    pub dropscript: Script,
    pub tail: Tail,
}

impl Node {
    pub fn build(id: u32, store_kind: usize, fin: Script, dropscript: Script) -> (Node, u32) {
        let (store, nslots) = make_store(store_kind, id);
        (
            Node {
                head: Head { id, canary: Cell::new(MAGIC ^ id as u64) },
                store: RefCell::new(store),
                bulk: RefCell::new(Vec::new()),
                weaks: RefCell::new(Vec::new()),
                self_weak: RefCell::new(None),
                cleaner: Cleaner::new(),
                zsts: Zsts::new(),
                marker: std::marker::PhantomData,
                pins: Pins(RefCell::new(Vec::new())),
                fin,
                dropscript,
                tail: Tail { id },
            },
            nslots,
        )
    }

    pub fn canary_ok(&self) -> bool {
        self.head.canary.get() == MAGIC ^ self.head.id as u64
    }
}

impl Finalize for Node {
    fn finalize(&self) {
        W::cb_node_finalize(self);
    }
}

impl Drop for Node {
    fn drop(&mut self) {
        W::cb_node_drop(self);
    }
}

/// Edge-less payload over the size x alignment grid. Identified by address.
pub struct Leaf<const S: usize, A: 'static> {
    pub bytes: [u8; S],
    pub _a: [A; 0],
}

// Debug output that depends on the value only (C20: `{:?}` of a Cc is `{:?}` of its value in every collector phase).
impl std::fmt::Debug for Node {
    fn fmt(&self, f: &mut std::fmt::Formatter<'_>) -> std::fmt::Result {
        write!(f, "Node({})", self.head.id)
    }
}
impl<const S: usize, A: 'static> std::fmt::Debug for Leaf<S, A> {
    fn fmt(&self, f: &mut std::fmt::Formatter<'_>) -> std::fmt::Result {
        write!(f, "Leaf<{}>({:?})", S, &self.bytes[..S.min(4)])
    }
}

impl<const S: usize, A: 'static> Leaf<S, A> {
    pub fn make(id: u32) -> Self {
        let mut bytes = [0u8; S];
        fill_pattern(&mut bytes, id);
        Leaf { bytes, _a: [] }
    }
}

pub fn fill_pattern(bytes: &mut [u8], id: u32) {
    for (i, b) in bytes.iter_mut().enumerate() {
        *b = pattern_byte(id, i);
    }
}
#[inline]
pub fn pattern_byte(id: u32, i: usize) -> u8 {
    (id as usize).wrapping_mul(31).wrapping_add(i.wrapping_mul(7)).wrapping_add(0x3C) as u8
}
pub fn check_pattern(bytes: &[u8], id: u32) -> bool {
    bytes.iter().enumerate().all(|(i, b)| *b == pattern_byte(id, i))
}

unsafe impl<const S: usize, A: 'static> Trace for Leaf<S, A> {
    fn trace(&self, _: &mut Context<'_>) {
        W::cb_leaf_trace(self as *const _ as usize);
    }
}
impl<const S: usize, A: 'static> Finalize for Leaf<S, A> {
    fn finalize(&self) {
        W::cb_leaf_finalize(self as *const _ as usize, &self.bytes);
    }
}
impl<const S: usize, A: 'static> Drop for Leaf<S, A> {
    fn drop(&mut self) {
        W::cb_leaf_drop(self as *const _ as usize, &self.bytes);
    }
}

/// Ordered / hashable payload for the forwarding-trait monitors.
#[derive(PartialEq, Eq, PartialOrd, Ord, Hash, Debug, Default)]
pub struct KeyI {
    pub key: i32,
}
impl std::fmt::Display for KeyI {
    fn fmt(&self, f: &mut std::fmt::Formatter<'_>) -> std::fmt::Result {
        std::fmt::Display::fmt(&self.key, f) // honours width, fill, sign, ...
    }
}
unsafe impl Trace for KeyI {
    fn trace(&self, _: &mut Context<'_>) {
        W::cb_leaf_trace(self as *const _ as usize);
    }
}
impl Finalize for KeyI {
    fn finalize(&self) {
        W::cb_leaf_finalize(self as *const _ as usize, &[]);
    }
}
// KeyI has no Drop (it must stay `Default`-constructible by the crate); its release is observed through the allocator.

#[derive(PartialEq, PartialOrd, Debug)]
pub struct KeyF {
    pub key: f64,
}
impl std::fmt::Display for KeyF {
    fn fmt(&self, f: &mut std::fmt::Formatter<'_>) -> std::fmt::Result {
        std::fmt::Display::fmt(&self.key, f) // honours width, precision, sign, ...
    }
}
unsafe impl Trace for KeyF {
    fn trace(&self, _: &mut Context<'_>) {
        W::cb_leaf_trace(self as *const _ as usize);
    }
}
impl Finalize for KeyF {
    fn finalize(&self) {
        W::cb_leaf_finalize(self as *const _ as usize, &[]);
    }
}

/// A list node whose Debug output nests through `Cc` (C20: Debug on Cc<T> is Debug on T, at any depth).
#[derive(Debug, Trace, Finalize)]
pub struct Nest {
    pub key: u32,
    pub next: Option<Cc<Nest>>,
}
pub mod plain {
    /// Same shape and same type name, nesting through `Box` (whose Debug is transparent).
    #[derive(Debug)]
    pub struct Nest {
        pub key: u32,
        pub next: Option<Box<Nest>>,
    }
}

/// A list node whose comparisons recurse through `Cc` (C20: Eq / Ord on Cc<T> are those of T, also when the left
/// operand is cyclic and the right one is a finite unrolling of it).
#[derive(Trace, Finalize, PartialEq, Eq, PartialOrd, Ord)]
pub struct Link {
    pub v: i64,
    pub next: std::cell::RefCell<Option<Cc<Link>>>,
}

/// A payload the harness does not track at all (used by self-contained probes).
pub struct Plain(pub i32);
unsafe impl Trace for Plain {
    fn trace(&self, _: &mut Context<'_>) {}
}
impl Finalize for Plain {}

pub fn key_f(sel: i64) -> f64 {
    match sel.rem_euclid(8) {
        0 => 0.0,
        1 => -0.0,
        2 => f64::NAN,
        3 => 1.5,
        4 => -2.25,
        5 => f64::INFINITY,
        6 => f64::NEG_INFINITY,
        _ => 1e-9,
    }
}
