//! Everything the crate calls back into: trace / finalize / drop of harness objects, cleaning actions,
//! the allocation observer. Each callback first synchronises allocator events, validates the object
//! it was invoked on, updates the mirror, evaluates the callback-time oracles, then (maybe) injects
//! the planned fault and interprets the object's script.

use std::panic::panic_any;

use rust_cc::verif::AllocEvent;

use crate::alloc::{self, BlockState};
use crate::compat::*;
use crate::node::*;
use crate::program::*;
use crate::world::*;

pub fn observer(ev: AllocEvent, addr: usize, size: usize, align: usize) {
    if let Some(w) = world() {
        if let Ok(mut o) = w.obs.try_borrow_mut() {
            o.push((ev as u8, addr, size, align));
        }
    }
}

pub struct FrameGuard<'a> {
    w: &'a World,
    depth: usize,
}
impl<'a> Drop for FrameGuard<'a> {
    fn drop(&mut self) {
        if let Ok(mut m) = self.w.m.try_borrow_mut() {
            m.frames.truncate(self.depth);
        }
    }
}

pub struct EdgeDropGuard {
    active: bool,
    depth: usize,
    target: ObjId,
    inflight_depth: usize,
}
impl Drop for EdgeDropGuard {
    fn drop(&mut self) {
        if !self.active {
            return;
        }
        if let Some(w) = world() {
            w.edge_drop_end(self.depth, self.inflight_depth, self.target);
        }
    }
}

impl World {
    pub fn push_frame(&self, kind: FrameKind, collector: bool, must_be_noop: bool) -> FrameGuard<'_> {
        let mut m = self.m.borrow_mut();
        let depth = m.frames.len();
        m.frames.push(Frame { kind, collector, must_be_noop });
        FrameGuard { w: self, depth }
    }

    /// Drains the allocation events reported by the crate since the last synchronisation point.
    pub fn sync(&self) {
        let evs = std::mem::take(&mut *self.obs.borrow_mut());
        if evs.is_empty() {
            return;
        }
        let mut bad: Option<String> = None;
        {
            let mut m = self.m.borrow_mut();
            for (ev, addr, size, align) in evs {
                match ev {
                    0 => m.unclaimed_boxes.push((addr, size, align)),
                    1 => {
                        if let Some(&o) = m.by_box.get(&addr) {
                            let ob = &mut m.objs[o as usize];
                            match (ob.kind, ob.status) {
                                (_, Status::Dropped | Status::Unwrapped | Status::UnderConstruction | Status::Gone) => {}
                                (ObjKind::KeyI | ObjKind::KeyF | ObjKind::Map, _) => ob.status = Status::Dropped, // no observable destructor
                                (_, st) => {
                                    if !ob.tainted && bad.is_none() {
                                        bad = Some(format!("box of object {} released while its value is {:?} (not dropped, not moved out)", o, st));
                                    }
                                }
                            }
                        } else {
                            m.unclaimed_boxes.retain(|b| b.0 != addr);
                        }
                    }
                    2 => match m.expect_side_for.take() {
                        Some(o) => {
                            m.objs[o as usize].side_addr = addr;
                            m.by_side.insert(addr, o);
                        }
                        None => m.unclaimed_sides.push(addr),
                    },
                    _ => {}
                }
            }
        }
        if let Some(b) = bad {
            self.fail("O-ALLOC.early-free", b);
        }
        if let Some(v) = alloc::take_violation() {
            self.fail("O-ALLOC.ledger", v.describe());
        }
    }

    /// Buffer model (C11): a collection that starts consumes the whole buffer in its first pass.
    pub fn buf_collection_starts(&self) {
        let members: Vec<ObjId> = match rust_cc::verif::buffer_walk(100_000) {
            Some(walk) => {
                let m = self.m.borrow();
                walk.members.iter().filter_map(|s| m.by_box.get(&s.box_addr).copied()).collect()
            }
            None => Vec::new(),
        };
        let mut m = self.m.borrow_mut();
        m.buf_at_collection_start = members;
        m.buf_model.clear();
        m.buf_pending.clear();
        m.dropped_this_pass.clear();
        m.nontrace_since_pass = false;
        m.pass_count = 1;
    }

    /// A trace callback after finalizers / destructors of the same collection: the next pass has begun and has
    /// consumed everything buffered so far.
    pub fn buf_note_trace(m: &mut Model, stats: &std::cell::RefCell<crate::stats::Stats>) {
        if m.nontrace_since_pass {
            m.nontrace_since_pass = false;
            m.pass_count += 1;
            if m.pass_count == 10 {
                stats.borrow_mut().bump("collection_reached_its_10th_pass");
            }
            m.buf_pending.clear();
            m.dropped_this_pass.clear();
            m.buf_model.clear();
            if m.pass_count >= 10 && m.buf_exact {
                // the documented 10-pass cap may leave an unspecified part of the work for the next collection
                m.buf_exact = false;
                *stats.borrow_mut().cap_hits.entry("ten_pass_cap_buffer_model_off").or_insert(0) += 1;
            }
        }
    }

    pub fn is_tracing_now(&self) -> Option<bool> {
        rust_cc::state::is_tracing().ok()
    }

    fn phase_name(m: &Model) -> String {
        let mut s = String::new();
        for f in &m.frames {
            let n = match f.kind {
                FrameKind::Lib(l) => format!("{:?}", l),
                FrameKind::Trace(_) => "trace".into(),
                FrameKind::Finalize(_) => if f.collector { "finalize-pass".into() } else { "finalize-rc".into() },
                FrameKind::Destroy(_) => if f.collector { "drop-pass".into() } else { "drop-rc".into() },
                FrameKind::DestroyValue(_) => "drop-unboxed-value".into(),
                FrameKind::LeafFinalize(_) => "leaf-finalize".into(),
                FrameKind::LeafDrop(_) => "leaf-drop".into(),
                FrameKind::Action(_) => "action".into(),
                FrameKind::Closure(_) => "closure".into(),
            };
            if !s.is_empty() {
                s.push('>');
            }
            s.push_str(&n);
        }
        s
    }

    pub fn fault_point(&self, kind: FaultKind) {
        let k;
        {
            let mut m = self.m.borrow_mut();
            k = m.fault_counters[kind as usize];
            m.fault_counters[kind as usize] += 1;
        }
        if self.dead.get() || std::thread::panicking() {
            return;
        }
        if self.faults.iter().any(|f| f.kind == kind && f.k == k) {
            {
                let mut m = self.m.borrow_mut();
                let phase = World::phase_name(&m);
                m.faults_fired.push((Fault { kind, k }, phase.clone()));
                m.fired_this_op = true;
                if m.fault_op.is_none() {
                    let live = m.objs.iter().filter(|o| o.status == Status::Live).count() as u32;
                    m.fault_op = Some((m.op_index, live));
                }
                // The objects involved in the unwound call may be leaked and their finalizers / destructors skipped:
                // everything the running collection (or destruction chain) has touched so far, whatever is on the
                // callback stack, and everything reachable from those. All other objects keep their full guarantees.
                let mut involved: Vec<ObjId> = m.touched_this_call.clone();
                for f in m.frames.iter() {
                    match f.kind {
                        FrameKind::Trace(o) | FrameKind::Finalize(o) | FrameKind::Destroy(o) | FrameKind::DestroyValue(o) | FrameKind::LeafFinalize(o) | FrameKind::LeafDrop(o) | FrameKind::Closure(o) => involved.push(o),
                        FrameKind::Action(a) => {
                            let (mp, ow) = (m.actions[a as usize].map, m.actions[a as usize].owner);
                            involved.push(mp);
                            involved.push(ow);
                        }
                        FrameKind::Lib(_) => {}
                    }
                }
                involved.extend(m.inflight.iter().copied());
                // the whole buffer is handed to a collection when it starts: its members are involved too
                if m.frames.iter().any(|f| f.collector) {
                    let buffered: Vec<ObjId> = m.buf_at_collection_start.clone();
                    involved.extend(buffered);
                }
                let mut seen = vec![false; m.objs.len()];
                let mut stack = Vec::new();
                for o in involved {
                    if (o as usize) < seen.len() && !seen[o as usize] {
                        seen[o as usize] = true;
                        stack.push(o);
                    }
                }
                while let Some(o) = stack.pop() {
                    let next: Vec<ObjId> = m.objs[o as usize].edges.values().copied().chain(m.objs[o as usize].map).chain(m.objs[o as usize].owner).collect();
                    for t in next {
                        if !seen[t as usize] {
                            seen[t as usize] = true;
                            stack.push(t);
                        }
                    }
                }
                for (i, o) in m.objs.iter_mut().enumerate() {
                    if seen[i] {
                        o.tainted = true;
                    }
                }
                let mut st = self.stats.borrow_mut();
                *st.faults_fired.entry(format!("{}@{}", kind.name(), phase)).or_insert(0) += 1;
            }
            self.ev(11, kind as u64, k as u64);
            panic_any(Injected(kind, k));
        }
    }

    fn sample_phase(&self, expect_tracing: bool, what: &str) {
        if let Some(t) = self.is_tracing_now() {
            if t != expect_tracing {
                self.fail("O-PHASE.is_tracing", format!("is_tracing() == {} inside {}", t, what));
            }
        }
    }

    fn edge_drop_end(&self, depth: usize, inflight_depth: usize, target: ObjId) {
        let check;
        {
            let mut m = match self.m.try_borrow_mut() {
                Ok(m) => m,
                Err(_) => return,
            };
            m.frames.truncate(depth);
            m.inflight.truncate(inflight_depth);
            check = !std::thread::panicking() && !self.dead.get() && !m.frames.iter().any(|f| f.collector);
        }
        if check {
            self.check_rc_after_drop(target, "a field of a dropped value");
        }
    }

    /// C04: after a Cc::drop that ran outside any collection, an object with no Cc left is gone.
    pub fn check_rc_after_drop(&self, target: ObjId, what: &str) {
        self.sync(); // payloads without an observable destructor are known to be gone only through the allocator
        let mut m = self.m.borrow_mut();
        let c = World::count(&m, target);
        // (an enclosing, still running Cc::drop of the same object will finish the job: e.g. its finalizer upgraded a Weak
        //  to it and dropped the result again)
        let pending_outer = m.inflight.contains(&target);
        let ob = &mut m.objs[target as usize];
        if c == 0 && !pending_outer && ob.status == Status::Live && !ob.tainted && !ob.zero_in_collection && ob.kind != ObjKind::Map {
            let msg = format!("last Cc to object {} ({}) was dropped outside a collection but the object was not destroyed before the drop returned", target, what);
            drop(m);
            self.fail("O-RC.immediate", msg);
        }
    }

    /// Marks `target` when its model count reaches zero inside a running collection (it may then wait in the buffer).
    pub fn note_zero_in_collection(&self, target: ObjId) {
        let mut m = self.m.borrow_mut();
        if m.frames.iter().any(|f| f.collector) && World::count(&m, target) == 0 {
            m.objs[target as usize].zero_in_collection = true;
        }
    }

    /// The real `Node` of a live object (valid while its box is allocated).
    pub unsafe fn node_of<'a>(&self, o: ObjId) -> Option<&'a Node> {
        let m = self.m.borrow();
        let ob = &m.objs[o as usize];
        if ob.kind != ObjKind::Node || ob.payload == 0 {
            return None;
        }
        Some(&*(ob.payload as *const Node))
    }
}

// ---------------------------------------------------------------------------------------------- trace

pub fn cb_trace_enter(id: u32, canary: u64) {
    let Some(w) = world() else { return };
    if w.dead.get() {
        return;
    }
    w.sync();
    w.stats.borrow_mut().cb("trace");
    w.ev(2, id as u64, 0);
    let mut problem: Option<(&'static str, String)> = None;
    {
        let mut m = w.m.borrow_mut();
        if canary != MAGIC ^ id as u64 || id as usize >= m.objs.len() {
            problem = Some(("O-MEM.trace-invalid", format!("trace called on a value that is dropped, freed or uninitialised (id field {:#x}, canary {:#x})", id, canary)));
        } else {
            let st = m.objs[id as usize].status;
            if st != Status::Live {
                problem = Some(("O-MEM.trace-dead", format!("trace called on object {} whose value is {:?}", id, st)));
            }
            match m.frames.last().copied() {
                Some(Frame { kind: FrameKind::Lib(l), must_be_noop, .. }) => {
                    if must_be_noop {
                        problem = Some(("O-NONEST.nested", format!("a collection started from {:?} while another collection was in progress (trace of object {})", l, id)));
                    } else if !matches!(l, LibCall::Collect | LibCall::New | LibCall::NewCyclic | LibCall::Register) {
                        problem = Some(("O-NONEST.origin", format!("trace of object {} invoked from {:?}, which cannot start a collection", id, l)));
                    }
                }
                other => {
                    problem = Some(("O-NONEST.origin", format!("trace of object {} invoked with parent frame {:?}", id, other.map(|f| f.kind))));
                }
            }
            m.collection_this_op = true;
            m.batch_open = false;
            m.trace_seen_in_call = true;
            m.objs[id as usize].processed_by_collection = true;
            m.touched_this_call.push(id);
            if World::reach(&m)[id as usize] {
                w.stats.borrow_mut().bump("traced_reachable_object");
            }
            World::buf_note_trace(&mut m, &w.stats);
        }
        m.frames.push(Frame { kind: FrameKind::Trace(id), collector: true, must_be_noop: false });
    }
    if let Some((o, msg)) = problem {
        w.fail(o, msg);
        return;
    }
    w.sample_phase(true, "Trace::trace");
    // the census counts from zero (an earlier trace call may have been cut short by an injected panic)
    if let Some(node) = unsafe { w.node_of(id) } {
        let store = unsafe { &*node.store.as_ptr() };
        let mut edges = Vec::new();
        store.walk(&mut edges);
        for e in edges {
            e.tprobe.set(0);
        }
        for e in unsafe { &*node.pins.0.as_ptr() }.iter() {
            e.tprobe.set(0);
        }
        for e in unsafe { &*node.bulk.as_ptr() }.iter() {
            e.tprobe.set(0);
        }
    }
    w.fault_point(FaultKind::Trace);
}

pub fn cb_edge_trace(_owner: u32, _key: u32) {
    let Some(w) = world() else { return };
    if w.dead.get() {
        return;
    }
    w.stats.borrow_mut().cb("trace-edge");
    w.fault_point(FaultKind::TraceEdge);
}

pub fn cb_trace_exit(id: u32) {
    let Some(w) = world() else { return };
    if w.dead.get() {
        return;
    }
    // census (C17): every owned position was visited exactly once, ignored positions never
    let borrowed = w.m.borrow().store_borrowed == Some(id);
    if let Some(node) = unsafe { w.node_of(id) } {
        let store = unsafe { &*node.store.as_ptr() };
        let mut edges = Vec::new();
        store.walk(&mut edges);
        for (i, e) in edges.iter().enumerate() {
            let t = e.tprobe.replace(0);
            let want = if borrowed { 0 } else { 1 };
            if t != want {
                w.fail("O-VISIT.trace", format!("one trace call on object {} visited container position {} {} times (expected {}; store kind {})", id, i, t, want, STORE_KINDS[w.m.borrow().objs[id as usize].store_kind as usize].0));
                break;
            }
        }
        for e in unsafe { &*node.bulk.as_ptr() }.iter() {
            if e.tprobe.replace(0) != 1 {
                w.fail("O-VISIT.trace", format!("one trace call on object {} did not visit each pointer of a long Vec exactly once", id));
                break;
            }
        }
        for e in unsafe { &*node.pins.0.as_ptr() }.iter() {
            if e.tprobe.replace(0) != 0 {
                w.fail("O-VISIT.ignored", format!("trace on object {} visited a field marked #[rust_cc(ignore)]", id));
                break;
            }
        }
    }
    let mut m = w.m.borrow_mut();
    if let Some(pos) = m.frames.iter().rposition(|f| f.kind == FrameKind::Trace(id)) {
        m.frames.truncate(pos);
    }
}

// ---------------------------------------------------------------------------------------------- finalize

/// Shared finalization-time checks (C05) for nodes and leaves. Returns false if the run is dead.
fn finalize_checks(w: &World, id: ObjId, what: &str) -> bool {
    if !HAS_FIN {
        w.fail("O-FIN.a", format!("finalize called on {} {} although the finalization feature is disabled", what, id));
        return false;
    }
    // (b) garbage only: unreachable now, or seen unreachable earlier in this finalization batch
    {
        let mut m = w.m.borrow_mut();
        if !m.batch_open {
            m.batch_open = true;
            m.batch_id += 1;
        }
    }
    w.stamp_unreachable();
    let mut m = w.m.borrow_mut();
    let ob = &m.objs[id as usize];
    if ob.stamp != m.batch_id {
        let msg = format!("finalize called on {} {} which is reachable from program-held pointers (and has been since this finalization batch began)", what, id);
        drop(m);
        w.fail("O-FIN.b", msg);
        return false;
    }
    // (c) at most once unless re-armed
    if ob.fin_flag {
        let msg = format!("finalize called on {} {} which was already finalized (calls so far: {}) and not re-armed", what, id, ob.fin_calls);
        drop(m);
        w.fail("O-FIN.c", msg);
        return false;
    }
    // (e) the object and everything reachable from it are undropped
    if !ob.tainted {
        for r in World::reach_from(&m, id) {
            let rs = m.objs[r as usize].status;
            if !matches!(rs, Status::Live | Status::Unwrapped | Status::UnderConstruction) && !m.objs[r as usize].tainted && m.objs[r as usize].kind != ObjKind::Map {
                let msg = format!("finalize of {} {} runs while object {} reachable from it is {:?}", what, id, r, rs);
                drop(m);
                w.fail("O-FIN.e", msg);
                return false;
            }
        }
    }
    let ob = &mut m.objs[id as usize];
    ob.fin_flag = true;
    ob.fin_calls += 1;
    true
}

pub fn cb_node_finalize(node: &Node) {
    let Some(w) = world() else { return };
    if w.dead.get() {
        return;
    }
    w.sync();
    w.stats.borrow_mut().cb("finalize");
    let id = node.head.id;
    if !node.canary_ok() || id as usize >= w.m.borrow().objs.len() {
        w.fail("O-MEM.finalize-invalid", format!("finalize called on a value that is dropped, freed or uninitialised (id field {:#x})", id));
        return;
    }
    w.ev(3, id as u64, 0);
    let st = w.m.borrow().objs[id as usize].status;
    if st != Status::Live {
        w.fail("O-FIN.after-drop", format!("finalize called on object {} whose value is {:?}", id, st));
        return;
    }
    let collector = World::parent_is_collector(&w.m.borrow());
    if collector {
        w.m.borrow_mut().nontrace_since_pass = true;
    }
    w.m.borrow_mut().touched_this_call.push(id);
    let _fg = w.push_frame(FrameKind::Finalize(id), collector, false);
    w.sample_phase(false, "Finalize::finalize");
    if !finalize_checks(w, id, "object") {
        return;
    }
    w.stats.borrow_mut().bump(if collector { "finalize_in_collector" } else { "finalize_in_rc_path" });
    // forwarding census (C17): the container impls forward to each contained value exactly once
    let borrowed = w.m.borrow().store_borrowed == Some(id) && !w.m.borrow().store_borrow_shared;
    {
        use rust_cc::Finalize;
        node.store.finalize();
        let store = unsafe { &*node.store.as_ptr() };
        let mut edges = Vec::new();
        store.walk(&mut edges);
        for (i, e) in edges.iter().enumerate() {
            let f = e.fprobe.replace(0);
            // a RefCell that is mutably borrowed forwards nothing
            let want = if borrowed { 0 } else { 1 };
            if f != want {
                w.fail("O-VISIT.finalize", format!("Finalize forwarding on object {} reached container position {} {} times (expected {})", id, i, f, want));
                return;
            }
        }
    }
    {
        use rust_cc::Finalize;
        ZFIN.with(|c| c.set(0));
        node.zsts.finalize();
        let got = ZFIN.with(|c| c.get());
        if got != N_ZSTS {
            w.fail("O-VISIT.finalize-zst", format!("Finalize forwarding through Vec / array / slice / tuple / Option / RefCell reached {} of {} zero-sized elements", got, N_ZSTS));
            return;
        }
    }
    w.fault_point(FaultKind::Finalize);
    w.run_script(ScriptCtx::Fin, Some(node), &node.fin);
    w.fault_point(FaultKind::FinalizePost);
}

// ---------------------------------------------------------------------------------------------- drop

pub fn cb_node_drop(node: &Node) {
    let Some(w) = world() else { return };
    let id = node.head.id;
    let valid = node.canary_ok() && (id as usize) < w.m.borrow().objs.len();
    if w.dead.get() {
        if !valid {
            // running drop glue on garbage would crash; the violation is already on record
            println!("@@FATAL");
            std::process::exit(3);
        }
        return;
    }
    w.sync();
    w.stats.borrow_mut().cb("drop");
    if !valid {
        w.fail_fatal(
            "O-DROP1.invalid",
            format!("a destructor ran on a value that was never constructed, already dropped, or freed (id field {:#x}, canary {:#x})", id, node.head.canary.get()),
        );
    }
    w.ev(4, id as u64, 0);
    let mut problem: Option<(&'static str, String)> = None;
    let collector;
    {
        let mut m = w.m.borrow_mut();
        collector = World::parent_is_collector(&m);
        if collector {
            m.nontrace_since_pass = true;
        }
        let st = m.objs[id as usize].status;
        match st {
            Status::Live => {
                let r = World::reach(&m);
                let ob = &m.objs[id as usize];
                if r[id as usize] {
                    problem = Some(("O-REACH.drop", format!("object {} is dropped while it is still reachable from program-held pointers", id)));
                } else if HAS_FIN && !ob.fin_flag && !ob.tainted {
                    problem = Some(("O-FIN.before-drop", format!("object {} is dropped by the crate without having been finalized", id)));
                } else if ob.box_addr != 0 && alloc::block(ob.box_addr).state != BlockState::Live {
                    problem = Some(("O-DROP1.after-free", format!("object {} is dropped after its allocation was released", id)));
                }
                if collector {
                    let mut st = w.stats.borrow_mut();
                    st.freed_by_collector += 1;
                    let ob = &m.objs[id as usize];
                    let slots: Vec<u32> = ob.edges.keys().copied().filter(|k| k & 0xFF00_0000 == KEY_SLOT).collect();
                    if !slots.is_empty() {
                        st.bump("collector_dropped_object_with_edges");
                        let (kname, variant, ..) = STORE_KINDS[ob.store_kind as usize];
                        if variant != "V" {
                            st.bump("cycle_through_non_vec_position_reclaimed");
                        }
                        for s in slots {
                            *st.store_reach.entry(format!("{}/{}", kname, s & 0xFFFF)).or_insert(0) += 1;
                        }
                    }
                    drop(st);
                    m.free_paths.insert(1);
                } else {
                    w.stats.borrow_mut().freed_by_rc += 1;
                    m.free_paths.insert(0);
                }
            }
            Status::Unwrapped => {
                if m.expected_unboxed != Some(id) {
                    problem = Some(("O-DROP1.unwrapped", format!("value of object {} (moved out by try_unwrap) dropped by someone else than its holder", id)));
                }
            }
            Status::Pending => {} // creation unwound: the value is dropped by the unwinding, once
            other => {
                drop(m);
                w.fail_fatal("O-DROP1.twice", format!("destructor of object {} runs again (value is already {:?})", id, other));
            }
        }
        m.objs[id as usize].status = Status::Destroying;
        m.touched_this_call.push(id);
        m.dropped_this_pass.push(id);
        m.buf_model.remove(&id);
        let boxed = st == Status::Live;
        m.frames.push(Frame { kind: if boxed { FrameKind::Destroy(id) } else { FrameKind::DestroyValue(id) }, collector: collector && boxed, must_be_noop: false });
    }
    if let Some((o, msg)) = problem {
        w.fail(o, msg);
        node.head.canary.set(DEAD);
        return;
    }
    w.sample_phase(false, "Drop::drop");
    // From here on a panic leaves the Destroy frame to be closed by Tail::drop.
    struct Kill<'a>(&'a Node);
    impl<'a> Drop for Kill<'a> {
        fn drop(&mut self) {
            self.0.head.canary.set(DEAD);
        }
    }
    let _k = Kill(node);
    w.fault_point(FaultKind::Drop);
    w.run_script(ScriptCtx::Drop, Some(node), &node.dropscript);
    w.fault_point(FaultKind::DropPost);
}

pub fn cb_destroy_exit(id: u32) {
    let Some(w) = world() else { return };
    let Ok(mut m) = w.m.try_borrow_mut() else { return };
    if id as usize >= m.objs.len() {
        return;
    }
    if let Some(pos) = m.frames.iter().rposition(|f| f.kind == FrameKind::Destroy(id) || f.kind == FrameKind::DestroyValue(id)) {
        m.frames.truncate(pos);
    }
    let op_now = m.op_index;
    let ob = &mut m.objs[id as usize];
    // a value that never reached a box (its creation unwound) is simply gone
    ob.status = if ob.box_addr == 0 { Status::Gone } else { Status::Dropped };
    if !ob.edges.is_empty() {
        ob.leaked_edges = true; // ManuallyDrop positions: those Ccs now live forever
        ob.leaked_at_op = op_now;
    }
    ob.stored_weaks.clear();
    drop(m);
    w.ev(5, id as u64, 0);
}

pub fn cb_edge_drop_begin(owner: u32, key: u32, has: bool) -> EdgeDropGuard {
    let inert = EdgeDropGuard { active: false, depth: 0, target: 0, inflight_depth: 0 };
    let Some(w) = world() else { return inert };
    if w.dead.get() {
        return inert;
    }
    w.sync();
    let mut m = w.m.borrow_mut();
    if owner as usize >= m.objs.len() {
        return inert;
    }
    let t = m.edge_remove(owner, key);
    match (t, has) {
        (None, false) => inert,
        (Some(target), true) => {
            let depth = m.frames.len();
            let inflight_depth = m.inflight.len();
            let collector_ctx = m.frames.iter().any(|f| f.collector);
            m.frames.push(Frame { kind: FrameKind::Lib(LibCall::EdgeDrop), collector: false, must_be_noop: false });
            m.inflight.push(target);
            if collector_ctx && World::count(&m, target) == 0 {
                m.objs[target as usize].zero_in_collection = true;
            }
            if World::count(&m, target) > 0 && m.objs[target as usize].status == Status::Live {
                m.buf_pending.push(target);
            }
            drop(m);
            w.ev(6, owner as u64, key as u64);
            EdgeDropGuard { active: true, depth, target, inflight_depth }
        }
        (a, b) => {
            drop(m);
            harness_error(format!("edge ({}, {:#x}) mirror/real mismatch: mirror {:?}, real has={}", owner, key, a, b));
        }
    }
}

// ---------------------------------------------------------------------------------------------- leaves

fn leaf_lookup(w: &World, addr: usize, for_drop: bool) -> Option<ObjId> {
    let m = w.m.borrow();
    if let Some(&o) = m.by_payload.get(&addr) {
        // a boxed leaf; for zero-sized moved-out values the address may coincide, prefer the expected one
        if for_drop {
            if let Some(e) = m.expected_unboxed {
                if matches!(m.objs[e as usize].kind, ObjKind::Leaf(_)) && m.objs[e as usize].status == Status::Unwrapped {
                    return Some(e);
                }
            }
        }
        return Some(o);
    }
    if for_drop {
        if let Some(e) = m.expected_unboxed {
            return Some(e);
        }
        if let Some(p) = m.pending_leaf {
            return Some(p);
        }
    }
    None
}

pub fn cb_leaf_trace(addr: usize) {
    let Some(w) = world() else { return };
    if w.dead.get() {
        return;
    }
    w.stats.borrow_mut().cb("trace-leaf");
    {
        let mut m = w.m.borrow_mut();
        m.collection_this_op = true;
        m.batch_open = false;
        World::buf_note_trace(&mut m, &w.stats);
        if let Some(&o) = m.by_payload.get(&addr) {
            m.touched_this_call.push(o);
            m.objs[o as usize].processed_by_collection = true;
        }
    }
    if let Some(t) = w.is_tracing_now() {
        if !t {
            w.fail("O-PHASE.is_tracing", "is_tracing() == false inside Trace::trace of a leaf".to_string());
        }
    }
}

pub fn cb_leaf_finalize(addr: usize, bytes: &[u8]) {
    let Some(w) = world() else { return };
    if w.dead.get() {
        return;
    }
    w.sync();
    w.stats.borrow_mut().cb("finalize-leaf");
    let Some(id) = leaf_lookup(w, addr, false) else {
        w.fail("O-MEM.finalize-invalid", format!("finalize called on a leaf at an address that holds no live managed value ({:#x})", addr));
        return;
    };
    w.ev(9, id as u64, 0);
    let st = w.m.borrow().objs[id as usize].status;
    if st != Status::Live {
        w.fail("O-FIN.after-drop", format!("finalize called on leaf {} whose value is {:?}", id, st));
        return;
    }
    if !check_pattern(bytes, id) {
        w.fail("O-MEM.leaf-bytes", format!("leaf {} does not hold its value any more when finalized", id));
        return;
    }
    let collector = World::parent_is_collector(&w.m.borrow());
    if collector {
        w.m.borrow_mut().nontrace_since_pass = true;
    }
    w.m.borrow_mut().touched_this_call.push(id);
    let _fg = w.push_frame(FrameKind::LeafFinalize(id), collector, false);
    if let Some(true) = w.is_tracing_now() {
        w.fail("O-PHASE.is_tracing", "is_tracing() == true inside Finalize::finalize of a leaf".to_string());
        return;
    }
    if !finalize_checks(w, id, "leaf") {
        return;
    }
    w.fault_point(FaultKind::LeafFinalize);
}

pub fn cb_leaf_drop(addr: usize, bytes: &[u8]) {
    let Some(w) = world() else { return };
    if w.dead.get() {
        return;
    }
    w.sync();
    w.stats.borrow_mut().cb("drop-leaf");
    let Some(id) = leaf_lookup(w, addr, true) else {
        w.fail("O-DROP1.invalid", format!("a leaf destructor ran at {:#x}, where no constructed, undropped value lives (uninitialised, freed or already dropped)", addr));
        return;
    };
    w.ev(10, id as u64, 0);
    let mut problem: Option<(&'static str, String)> = None;
    {
        let mut m = w.m.borrow_mut();
        let collector = World::parent_is_collector(&m);
        if collector {
            m.nontrace_since_pass = true;
        }
        let st = m.objs[id as usize].status;
        match st {
            Status::Live => {
                let r = World::reach(&m);
                let ob = &m.objs[id as usize];
                if r[id as usize] {
                    problem = Some(("O-REACH.drop", format!("leaf {} is dropped while it is still reachable from program-held pointers", id)));
                } else if HAS_FIN && !ob.fin_flag && !ob.tainted {
                    problem = Some(("O-FIN.before-drop", format!("leaf {} is dropped by the crate without having been finalized", id)));
                } else if ob.box_addr != 0 && alloc::block(ob.box_addr).state != BlockState::Live {
                    problem = Some(("O-DROP1.after-free", format!("leaf {} is dropped after its allocation was released", id)));
                } else if !check_pattern(bytes, id) {
                    problem = Some(("O-MEM.leaf-bytes", format!("leaf {} does not hold its value any more when dropped", id)));
                }
                if collector {
                    w.stats.borrow_mut().freed_by_collector += 1;
                    m.free_paths.insert(1);
                } else {
                    w.stats.borrow_mut().freed_by_rc += 1;
                    m.free_paths.insert(0);
                }
                if let ObjKind::Leaf(l) = m.objs[id as usize].kind {
                    m.leaf_layouts_freed.insert(l);
                }
                m.objs[id as usize].status = Status::Dropped;
            }
            Status::Unwrapped => {
                if m.expected_unboxed != Some(id) {
                    problem = Some(("O-DROP1.unwrapped", format!("value of leaf {} (moved out by try_unwrap) dropped by someone else than its holder", id)));
                }
                m.objs[id as usize].status = Status::Dropped;
            }
            Status::Pending => m.objs[id as usize].status = Status::Gone,
            other => {
                problem = Some(("O-DROP1.twice", format!("destructor of leaf {} runs again (value is already {:?})", id, other)));
            }
        }
        m.dropped_this_pass.push(id);
        m.touched_this_call.push(id);
        m.buf_model.remove(&id);
    }
    if let Some((o, msg)) = problem {
        w.fail(o, msg);
        return;
    }
    if let Some(true) = w.is_tracing_now() {
        w.fail("O-PHASE.is_tracing", "is_tracing() == true inside Drop::drop of a leaf".to_string());
        return;
    }
    let _fg = w.push_frame(FrameKind::LeafDrop(id), false, false);
    w.fault_point(FaultKind::LeafDrop);
}

// ---------------------------------------------------------------------------------------------- actions

pub fn cb_action(uid: u32) {
    let Some(w) = world() else { return };
    if w.dead.get() {
        return;
    }
    w.sync();
    w.stats.borrow_mut().cb("action");
    w.ev(7, uid as u64, 0);
    let script;
    {
        let mut m = w.m.borrow_mut();
        let a = &mut m.actions[uid as usize];
        a.runs += 1;
        if a.runs > 1 {
            let msg = format!("cleaning action {} ran {} times", uid, a.runs);
            drop(m);
            w.fail("O-CLEAN.once", msg);
            return;
        }
        script = a.script.clone();
    }
    let by_clean = matches!(World::nearest_lib(&w.m.borrow()), Some(LibCall::Clean));
    if by_clean {
        let entitled = w.m.borrow().clean_stack.last().copied();
        // (if the action run by clean() releases the last owner, the Cleaner dies inside clean() and runs the rest: legal)
        let owner_alive = {
            let m = w.m.borrow();
            m.objs[m.actions[uid as usize].owner as usize].status == Status::Live
        };
        if entitled != Some(uid) && owner_alive {
            w.fail("O-CLEAN.wrong-action", format!("clean() on the Cleanable of action {:?} ran action {} instead", entitled, uid));
            return;
        }
    }
    if !by_clean {
        // the only other occasion is the destruction of the Cleaner, i.e. of the value that owns it
        let (owner, owner_live, excused) = {
            let m = w.m.borrow();
            let o = m.actions[uid as usize].owner;
            let ob = &m.objs[o as usize];
            (o, ob.status == Status::Live, ob.tainted || ob.map.map_or(false, |mp| m.objs[mp as usize].tainted || m.objs[mp as usize].status != Status::Live))
        };
        if owner_live && !excused {
            w.fail("O-CLEAN.early", format!("cleaning action {} ran although clean() was not called for it and its Cleaner (owned by object {}) is not being dropped", uid, owner));
            return;
        }
    }
    w.stats.borrow_mut().bump(if by_clean { "action_run_by_clean" } else { "action_run_by_cleaner_drop" });
    let _fg = w.push_frame(FrameKind::Action(uid), false, false);
    w.sample_phase(false, "a cleaning action");
    w.fault_point(FaultKind::Action);
    w.run_script(ScriptCtx::Act, None, &script);
}

/// A no-op action registered in bulk (C10 with very many actions / cleanables on one cleaner).
pub fn cb_bulk_action(map: ObjId) {
    let Some(w) = world() else { return };
    if w.dead.get() {
        return;
    }
    let mut m = w.m.borrow_mut();
    if (map as usize) < m.objs.len() {
        m.objs[map as usize].bulk_runs += 1;
        // a bulk action runs inside bulk_clean (clean() on its Cleanable) or while the owner of the Cleaner is destroyed
        let by_clean = m.bulk_clean_of == Some(map);
        let owner = m.objs.iter().position(|o| o.map == Some(map));
        let owner_live = owner.map_or(false, |o| m.objs[o].status == Status::Live && !m.objs[o].tainted);
        let map_live = m.objs[map as usize].status == Status::Live && !m.objs[map as usize].tainted;
        if !by_clean && owner_live && map_live {
            drop(m);
            w.fail("O-CLEAN.early", format!("a cleaning action of the cleaner of object {} ran although clean() was not called for it and the Cleaner is not being dropped", owner.unwrap()));
        }
    }
}
