//! Operation primitives: every library call the harness issues goes through here, with the mirror
//! updated on the caller side first and the call-level oracles evaluated right after.

use std::panic::{catch_unwind, AssertUnwindSafe};

use rust_cc::*;

use crate::alloc::{self, BlockState};
use crate::compat::{self, *};
use crate::leaves::*;
use crate::node::*;
use crate::program::*;
use crate::world::*;
use crate::{cc_to_weak, cc_unwrap, map_cc, map_weak, weak_to_cc, with_cc, with_val, with_weak};

pub const MAX_STRONG: u32 = 16382;
pub const MAX_WEAK: u32 = 32767;

struct TagGuard(u32);
impl Drop for TagGuard {
    fn drop(&mut self) {
        alloc::set_tag(self.0);
    }
}

pub fn payload_addr(cc: &AnyCc) -> usize {
    with_cc!(cc, c => (&**c) as *const _ as *const u8 as usize)
}

pub fn strong_count_of(cc: &AnyCc) -> u32 {
    with_cc!(cc, c => c.strong_count())
}

impl World {
    /// Runs one library call inside a frame (so that callbacks know who invoked them).
    pub fn lib<R>(&self, call: LibCall, f: impl FnOnce() -> R) -> R {
        let noop = matches!(call, LibCall::Collect | LibCall::New | LibCall::NewCyclic | LibCall::Register) && self.in_collection();
        let _fg = self.push_frame(FrameKind::Lib(call), false, noop);
        let _tg = TagGuard(alloc::set_tag(0x100 | call as u32));
        f()
    }

    pub fn exec_count(&self) -> u64 {
        rust_cc::state::executions_count().unwrap_or(0) as u64
    }

    pub fn check_exec(&self, oracle: &'static str, what: &str) {
        if self.dead.get() {
            return;
        }
        let got = self.exec_count();
        let want = self.m.borrow().exec_expected;
        if got != want {
            let ctx = if oracle.starts_with("O-TRIGGER") { format!("; before the creation: {}", self.last_pred.borrow()) } else { String::new() };
            self.fail(oracle, format!("executions_count() is {} after {}, expected {} (one per collection actually started){}", got, what, want, ctx));
        }
    }

    // ------------------------------------------------------------------ collection

    pub fn collect(&self) {
        // (during thread teardown the collector's buffer may already be gone: then nothing can be collected)
        let starts = !self.in_collection() && rust_cc::state::buffered_objects_count().is_ok();
        if starts {
            self.m.borrow_mut().exec_expected += 1;
            self.stats.borrow_mut().collections += 1;
            self.buf_collection_starts();
        } else {
            self.stats.borrow_mut().bump("collect_requested_inside_collection");
        }
        if !self.m.borrow().frames.is_empty() {
            self.stats.borrow_mut().bump("collect_requested_from_callback");
        }
        self.ev(17, starts as u64, 0);
        // a request that must be a no-op (a collection is already running) must not touch the policy state either
        let before = if !starts && self.in_collection() { Some((compat::cfg_read().map(|c| c.3), rust_cc::state::allocated_bytes().ok(), rust_cc::state::buffered_objects_count().ok())) } else { None };
        self.lib(LibCall::Collect, collect_cycles);
        self.sync();
        if let Some(b) = before {
            let after = (compat::cfg_read().map(|c| c.3), rust_cc::state::allocated_bytes().ok(), rust_cc::state::buffered_objects_count().ok());
            if after != b {
                self.fail("O-NONEST.side-effect", format!("collect_cycles() requested from a callback of a running collection is not a no-op: (byte threshold, allocated bytes, buffered objects) went from {:?} to {:?}", b, after));
                return;
            }
        }
        self.check_exec(if starts { "O-EXEC.collect" } else { "O-NONEST.exec" }, "collect_cycles()");
        if starts {
            self.after_collection_returned(0);
        }
    }

    /// Statement-level threshold invariants after a collection that returned normally (C15).
    pub fn after_collection_returned(&self, created_box_size: usize) {
        if self.dead.get() {
            return;
        }
        self.buf_model_collection_end();
        {
            let mut m = self.m.borrow_mut();
            let mut survived = false;
            for o in m.objs.iter_mut() {
                if o.resurrected {
                    o.resurrected = false;
                    survived |= o.status == Status::Live;
                }
            }
            if survived {
                self.stats.borrow_mut().bump("resurrected_object_survived_collection");
            }
        }
        if !HAS_AUTO {
            return;
        }
        let Some((_, _, pct, thr)) = compat::cfg_read() else { return };
        {
            let mut m = self.m.borrow_mut();
            if m.last_threshold != 0 && m.last_threshold != thr {
                self.stats.borrow_mut().bump("threshold_changed");
            }
            m.last_threshold = thr;
        }
        let Ok(now) = rust_cc::state::allocated_bytes() else { return };
        let a = now.saturating_sub(created_box_size);
        let init = self.m.borrow().initial_threshold;
        if init == 0 {
            return;
        }
        let mut k = thr;
        while k > init && k % 2 == 0 {
            k /= 2;
        }
        if k != init {
            self.fail("O-THRESH.power", format!("byte threshold {} after a collection is not a power-of-two multiple of its initial value {}", thr, init));
            return;
        }
        if thr <= a {
            self.fail("O-THRESH.above", format!("byte threshold {} after a collection is not strictly above allocated bytes {}", thr, a));
            return;
        }
        if pct != 0.0 {
            let ok = (a as f64) > (thr as f64) * pct || thr / 2 <= a || thr == init;
            if !ok {
                self.fail("O-THRESH.high", format!("byte threshold {} left needlessly high after a collection: allocated {} <= threshold x {} and halving would still be above allocated", thr, a, pct));
            }
        }
    }

    /// Will the next creation start a collection? (documented policy, evaluated on observable numbers)
    pub fn predict_trigger(&self) -> bool {
        if !HAS_AUTO || self.in_collection() {
            return false;
        }
        let Some((auto, bthr, pct, thr)) = compat::cfg_read() else { return false };
        {
            let m = self.m.borrow();
            if m.cfg_known && (auto != m.cfg.auto || bthr != m.cfg.buffered || (pct - m.cfg.permille as f64 / 1000.0).abs() > 1e-12) {
                drop(m);
                self.fail("O-TRIGGER.config", format!("configuration read back as auto={} buffered={} percent={} differs from what the program set", auto, bthr, pct));
                return false;
            }
        }
        let bytes = rust_cc::state::allocated_bytes().unwrap_or(0);
        let Ok(buf) = rust_cc::state::buffered_objects_count() else { return false };
        *self.last_pred.borrow_mut() = format!("auto_collect={} allocated_bytes={} byte_threshold={} buffered={} buffered_threshold={}", auto, bytes, thr, buf, bthr);
        auto && (bytes > thr || (bthr > 0 && buf > bthr as usize))
    }

    // ------------------------------------------------------------------ creation

    /// Expected `already_finalized()` of an object created now: Some(true/false) when the statement fixes it.
    fn created_fin_expectation(&self) -> Option<bool> {
        let m = self.m.borrow();
        if World::finalizer_innermost(&m) {
            Some(true)
        } else if !World::any_finalizer_frame(&m) {
            Some(false)
        } else {
            None
        }
    }

    fn claim_box(&self, id: ObjId, cc: &AnyCc, align: usize, fin_expect: Option<bool>, triggered: bool) {
        let payload = payload_addr(cc);
        let mut m = self.m.borrow_mut();
        let pos = m.unclaimed_boxes.iter().position(|b| b.0 < payload && payload <= b.0 + b.1);
        let Some(pos) = pos else {
            drop(m);
            self.fail("O-ALLOC.box", format!("object {}: its value at {:#x} lies in no managed allocation reported by the crate", id, payload));
            return;
        };
        let (base, size, balign) = m.unclaimed_boxes.remove(pos);
        {
            let ob = &mut m.objs[id as usize];
            if ob.box_addr == 0 {
                ob.box_addr = base;
                ob.box_size = size;
                ob.box_align = balign;
            }
            ob.payload = payload;
            ob.status = Status::Live;
        }
        m.by_payload.insert(payload, id);
        m.by_box.insert(base, id);
        drop(m);
        if payload % align != 0 {
            self.fail("O-ADDR.align", format!("object {}: value address {:#x} is not aligned to {}", id, payload, align));
            return;
        }
        let bi = alloc::block(base);
        if bi.state != BlockState::Live || bi.size != size || bi.align != balign {
            self.fail("O-ALLOC.box", format!("object {}: box {:#x} reported with (size {}, align {}) but the allocator has {:?}", id, base, size, balign, bi));
            return;
        }
        let actual = with_cc!(cc, c => compat::already_finalized(c));
        match fin_expect {
            Some(e) if HAS_FIN && e != actual => {
                self.fail("O-FIN.d", format!("object {} created {} reports already_finalized() == {}", id, if e { "inside a finalizer" } else { "outside any finalizer" }, actual));
                return;
            }
            _ => {}
        }
        self.m.borrow_mut().objs[id as usize].fin_flag = actual && HAS_FIN;
        self.stats.borrow_mut().objects += 1;
        self.ev(14, id as u64, triggered as u64);
    }

    pub fn note_creation(&self, pred: bool) {
        let mut m = self.m.borrow_mut();
        m.trace_seen_in_call = false;
        if !m.frames.is_empty() {
            self.stats.borrow_mut().bump("creation_from_callback");
        }
        if pred {
            m.exec_expected += 1;
            drop(m);
            self.buf_collection_starts();
            let mut st = self.stats.borrow_mut();
            st.collections += 1;
            st.bump("auto_collection_fired");
        } else {
            drop(m);
            self.stats.borrow_mut().bump("creation_without_collection");
        }
    }

    fn after_creation_checks(&self, pred: bool, id: ObjId, thresh: bool) {
        self.check_exec("O-TRIGGER.exec", "creating a Cc");
        if pred && thresh && !self.dead.get() {
            let sz = self.m.borrow().objs[id as usize].box_size;
            self.after_collection_returned(sz);
        }
    }

    /// `Cc::new(Node)`; returns the index of the new handle.
    pub fn create_node(&self, tmpl: &NodeTmpl) -> usize {
        let id = self.new_obj(ObjKind::Node, Status::Pending);
        let (node, nslots) = Node::build(id, tmpl.store as usize, tmpl.fin.clone(), tmpl.drop.clone());
        {
            let mut m = self.m.borrow_mut();
            m.objs[id as usize].store_kind = tmpl.store;
            m.objs[id as usize].nslots = nslots;
        }
        let pred = self.predict_trigger();
        let fe = self.created_fin_expectation();
        self.note_creation(pred);
        let cc = self.lib(LibCall::New, || Cc::new(node));
        self.sync();
        let any = AnyCc::N(cc);
        self.claim_box(id, &any, std::mem::align_of::<Node>(), fe, pred);
        let idx = self.push_root(any, id);
        self.after_creation_checks(pred, id, true);
        idx
    }

    pub fn create_leaf(&self, layout: usize, cyclic: Option<&Script>) -> usize {
        struct V<'a> {
            w: &'a World,
            id: ObjId,
            cyclic: Option<&'a Script>,
            pred: bool,
        }
        impl<'a> LeafVisitor for V<'a> {
            type Out = AnyCc;
            fn visit<const S: usize, A: Copy + Default + 'static>(self, wrap: fn(Cc<Leaf<S, A>>) -> AnyCc, wrapw: fn(crate::leaves::WeakOf<Leaf<S, A>>) -> AnyWeak) -> AnyCc {
                let w = self.w;
                let id = self.id;
                let pred = self.pred;
                match self.cyclic {
                    None => {
                        let leaf = Leaf::<S, A>::make(id);
                        wrap(w.lib(LibCall::New, || Cc::new(leaf)))
                    }
                    Some(script) => {
                        w.m.borrow_mut().expect_side_for = Some(id);
                        wrap(w.lib(LibCall::NewCyclic, || {
                            compat::new_cyclic(|weak| {
                                let saved = w.closure_prologue(id, pred, weak.strong_count(), weak.upgrade().is_some(), weak.weak_count());
                                let _fg = saved;
                                let sets = w.run_closure_script(id, script, &mut |kind| match kind {
                                    ClosureAsk::CloneWeak => Some(wrapw(weak.clone())),
                                    ClosureAsk::TryUpgrade => {
                                        if weak.upgrade().is_some() {
                                            w.fail("O-CYCLIC.upgrade", format!("the Weak given to the new_cyclic closure of object {} upgraded", id));
                                        }
                                        None
                                    }
                                });
                                for (_, cc, t) in sets {
                                    w.drop_cc(cc, t, "a clone made by a new_cyclic closure");
                                }
                                w.fault_point(FaultKind::Closure);
                                w.m.borrow_mut().pending_leaf = Some(id);
                                Leaf::<S, A>::make(id)
                            })
                        }))
                    }
                }
            }
        }
        let id = self.new_obj(ObjKind::Leaf(layout as u8), Status::Pending);
        let pred = self.predict_trigger();
        let fe = self.created_fin_expectation();
        self.note_creation(pred);
        self.m.borrow_mut().pending_leaf = Some(id);
        self.m.borrow_mut().objs[id as usize].via_cyclic = cyclic.is_some();
        let any = visit_layout(layout, V { w: self, id, cyclic, pred });
        self.m.borrow_mut().pending_leaf = None;
        self.sync();
        self.claim_box(id, &any, LAYOUTS[layout].1, fe, pred);
        let idx = self.push_root(any, id);
        self.after_creation_checks(pred, id, cyclic.is_none() || !HAS_WEAK);
        idx
    }

    pub fn create_key(&self, float: bool, key: i64, default: bool) -> usize {
        let id = self.new_obj(if float { ObjKind::KeyF } else { ObjKind::KeyI }, Status::Pending);
        let pred = self.predict_trigger();
        let fe = self.created_fin_expectation();
        self.note_creation(pred);
        let any = if float {
            let v = KeyF { key: key_f(key) };
            AnyCc::KF(self.lib(LibCall::New, || Cc::new(v)))
        } else if default {
            let c = self.lib(LibCall::New, Cc::<KeyI>::default);
            if c.key != 0 {
                self.fail("O-FWD.default", "Cc::<T>::default() does not hold T::default()".to_string());
            }
            AnyCc::KI(c)
        } else {
            let v = KeyI { key: key as i32 };
            AnyCc::KI(self.lib(LibCall::New, || Cc::new(v)))
        };
        self.sync();
        self.claim_box(id, &any, if float { 8 } else { 4 }, fe, pred);
        let idx = self.push_root(any, id);
        self.after_creation_checks(pred, id, true);
        idx
    }

    /// Entry of every new_cyclic closure: the box exists, the value does not.
    pub fn closure_prologue(&self, id: ObjId, pred: bool, strong: u32, upgraded: bool, weak_count: u32) -> FrameGuard<'_> {
        self.sync();
        self.stats.borrow_mut().cb("closure");
        self.ev(8, id as u64, 0);
        {
            let mut m = self.m.borrow_mut();
            // the only unclaimed box is the one new_cyclic just allocated
            if let Some((base, size, align)) = m.unclaimed_boxes.last().copied() {
                let ob = &mut m.objs[id as usize];
                ob.box_addr = base;
                ob.box_size = size;
                ob.box_align = align;
                ob.status = Status::UnderConstruction;
                m.by_box.insert(base, id);
            }
        }
        if pred {
            // the automatic collection (if any) has just finished: the threshold invariants are evaluated now,
            // before the closure gets a chance to allocate, release or collect
            let sz = self.m.borrow().objs[id as usize].box_size;
            self.check_exec("O-TRIGGER.exec", "the automatic collection of new_cyclic");
            self.after_collection_returned(sz);
        }
        let fg = self.push_frame(FrameKind::Closure(id), false, false);
        if let Some(true) = self.is_tracing_now() {
            self.fail("O-PHASE.is_tracing", "is_tracing() == true inside a new_cyclic closure".to_string());
        }
        if HAS_WEAK {
            if strong != 0 {
                self.fail("O-CYCLIC.strong", format!("inside the new_cyclic closure of object {} the Weak reports strong_count {}", id, strong));
            }
            if upgraded {
                self.fail("O-CYCLIC.upgrade", format!("the Weak given to the new_cyclic closure of object {} upgraded", id));
            }
            if weak_count != 1 {
                self.fail("O-WCOUNT.closure", format!("inside the new_cyclic closure of object {} weak_count is {} (one Weak exists)", id, weak_count));
            }
        }
        fg
    }

    /// `Cc::new_cyclic` for a node.
    pub fn create_node_cyclic(&self, tmpl: &NodeTmpl, script: &Script) -> usize {
        let id = self.new_obj(ObjKind::Node, Status::Pending);
        {
            let mut m = self.m.borrow_mut();
            m.objs[id as usize].store_kind = tmpl.store;
            m.objs[id as usize].via_cyclic = true;
        }
        let pred = self.predict_trigger();
        let fe = self.created_fin_expectation();
        self.note_creation(pred);
        self.m.borrow_mut().expect_side_for = Some(id);
        let w = self;
        let cc = self.lib(LibCall::NewCyclic, || {
            compat::new_cyclic(|weak| {
                let _fg = w.closure_prologue(id, pred, weak.strong_count(), weak.upgrade().is_some(), weak.weak_count());
                let mut self_weak: Option<AnyWeak> = None;
                let slot_sets = w.run_closure_script(id, script, &mut |kind| match kind {
                    ClosureAsk::CloneWeak => Some(AnyWeak::N(weak.clone())),
                    ClosureAsk::TryUpgrade => {
                        if weak.upgrade().is_some() {
                            w.fail("O-CYCLIC.upgrade", format!("the Weak given to the new_cyclic closure of object {} upgraded", id));
                        }
                        None
                    }
                });
                if script.iter().any(|m| m.code == MiniCode::SelfWeak) && HAS_WEAK {
                    self_weak = Some(AnyWeak::N(weak.clone()));
                }
                w.fault_point(FaultKind::Closure);
                let (node, nslots) = Node::build(id, tmpl.store as usize, tmpl.fin.clone(), tmpl.drop.clone());
                {
                    let mut m = w.m.borrow_mut();
                    m.objs[id as usize].nslots = nslots;
                    if self_weak.is_some() {
                        m.objs[id as usize].self_weak = true;
                    }
                }
                *node.self_weak.borrow_mut() = self_weak;
                // install the clones the script asked for
                if nslots > 0 {
                    let mut replaced: Vec<(AnyCc, ObjId)> = Vec::new();
                    {
                        let mut st = node.store.borrow_mut();
                        let mut edges = Vec::new();
                        st.walk_mut(&mut edges);
                        for (slot, cc, target) in slot_sets {
                            let s = (slot as u32 % nslots) as usize;
                            let key = KEY_SLOT | s as u32;
                            let old = edges[s].set(cc);
                            let old_t = w.m.borrow_mut().edge_insert(id, key, target);
                            if let (Some(oc), Some(ot)) = (old, old_t) {
                                replaced.push((oc, ot)); // two requests landed on the same position
                            }
                        }
                    }
                    for (oc, ot) in replaced {
                        w.drop_cc(oc, ot, "a clone overwritten inside a new_cyclic closure");
                    }
                } else {
                    for (_, cc, target) in slot_sets {
                        w.drop_cc(cc, target, "a clone made by a new_cyclic closure");
                    }
                }
                node
            })
        });
        self.sync();
        let any = AnyCc::N(cc);
        self.claim_box_cyclic(id, &any, std::mem::align_of::<Node>(), fe, pred);
        let idx = self.push_root(any, id);
        self.after_creation_checks(pred, id, !HAS_WEAK);
        idx
    }

    fn claim_box_cyclic(&self, id: ObjId, cc: &AnyCc, align: usize, fe: Option<bool>, pred: bool) {
        // With weak pointers the box was already identified in the closure prologue; it is still in the unclaimed list.
        self.claim_box(id, cc, align, fe, pred);
    }

    /// Called by the top-level recovery when a creation unwound: the object never came to life.
    pub fn creation_unwound(&self) {
        let mut m = self.m.borrow_mut();
        let n = m.objs.len();
        for i in 0..n {
            if matches!(m.objs[i].status, Status::Pending | Status::UnderConstruction) {
                m.objs[i].status = Status::Gone;
            }
        }
        m.unclaimed_boxes.clear();
    }

    // ------------------------------------------------------------------ dropping

    /// Drops one strong pointer to `o` (already removed from the mirror by the caller).
    pub fn drop_cc(&self, cc: AnyCc, o: ObjId, what: &str) {
        let depth;
        {
            let mut m = self.m.borrow_mut();
            depth = m.inflight.len();
            m.inflight.push(o);
            let c = World::count(&m, o);
            if c == 0 && m.frames.iter().any(|f| f.collector) {
                m.objs[o as usize].zero_in_collection = true;
            }
            if c == 0 && !m.frames.iter().any(|f| f.collector) && (m.objs[o as usize].was_buffered || m.objs[o as usize].processed_by_collection) {
                self.stats.borrow_mut().bump("last_owner_drop_of_buffered_or_processed");
            }
            if c > 0 && m.objs[o as usize].status == Status::Live {
                if m.frames.iter().any(|f| f.collector) {
                    m.buf_pending.push(o);
                } else {
                    m.buf_model.insert(o);
                    m.objs[o as usize].was_buffered = true;
                }
            }
        }
        self.lib(LibCall::DropCc, move || drop(cc));
        self.m.borrow_mut().inflight.truncate(depth);
        self.sync();
        if !self.in_collection() {
            self.check_rc_after_drop(o, what);
        }
    }

    pub fn drop_root_checked(&self, i: usize) {
        let r = catch_unwind(AssertUnwindSafe(|| self.drop_root(i)));
        if let Err(p) = r {
            self.fail("O-CONTAIN.panic", format!("dropping a handle panicked: {}", panic_message(&p)));
        }
    }

    pub fn drop_root(&self, i: usize) {
        let (cc, o) = self.take_root(i);
        self.drop_cc(cc, o, "a program-held handle");
    }

    /// Clones a table handle (library call) and returns the clone with its object.
    pub fn clone_root(&self, i: usize) -> Option<(AnyCc, ObjId)> {
        let o = self.m.borrow().root_obj[i]?;
        let p = self.root_ptr(i);
        let at_limit = World::count(&self.m.borrow(), o) >= MAX_STRONG;
        if at_limit {
            self.expect_limit_panic(o, "clone", || {
                let _ = self.lib(LibCall::Clone, || map_cc!(unsafe { &*p }, c => c.clone()));
            });
            return None;
        }
        let c = self.lib(LibCall::Clone, || map_cc!(unsafe { &*p }, c => c.clone()));
        self.m.borrow_mut().buf_model.remove(&o);
        Some((c, o))
    }

    /// Runs `f`, which must panic with the documented "too many references" panic and change nothing.
    pub fn expect_limit_panic(&self, o: ObjId, what: &str, f: impl FnOnce()) {
        let before = World::count(&self.m.borrow(), o);
        let r = catch_unwind(AssertUnwindSafe(f));
        self.stats.borrow_mut().bump("limit_attempt");
        match r {
            Ok(()) => self.fail("O-SAT.nopanic", format!("{} on object {} succeeded although {} pointers already exist (the supported maximum)", what, o, before)),
            Err(p) => {
                if p.is::<Injected>() || p.is::<HarnessError>() {
                    std::panic::resume_unwind(p);
                }
                if p.is::<crate::scripts::RefusedAtLimit>() {
                    // legal only where a refusal is legal: inside a callback, for an object whose destruction follows
                    let mut m = self.m.borrow_mut();
                    if m.frames.is_empty() && !m.objs[o as usize].tainted {
                        drop(m);
                        self.fail("O-UPG.refused", format!("upgrade returned None at top level although object {} is alive and has strong pointers", o));
                    } else {
                        m.refused.push(o);
                    }
                    return;
                }
                let msg = panic_message(&p);
                if internal_error_message(&msg) {
                    self.fail("O-SAT.message", format!("{} on object {} at the limit did not panic with the limit panic but with an internal error: {}", what, o, msg));
                }
            }
        }
    }
}

/// Is this the message of a failed internal check (arithmetic overflow check, assertion, unwrap, bounds or borrow
/// check) rather than of a deliberate `panic!`? The wording of the crate's own panics is not part of any property.
pub fn internal_error_message(msg: &str) -> bool {
    msg.starts_with("attempt to ")
        || msg.contains("assertion")
        || msg.contains("called `Option::unwrap()`")
        || msg.contains("called `Result::unwrap()`")
        || msg.contains("out of bounds")
        || msg.contains("already borrowed")
        || msg.contains("already mutably borrowed")
        || msg.contains("unreachable code")
}

pub fn panic_message(p: &Box<dyn std::any::Any + Send>) -> String {
    if let Some(s) = p.downcast_ref::<&str>() {
        s.to_string()
    } else if let Some(s) = p.downcast_ref::<String>() {
        s.clone()
    } else if let Some(i) = p.downcast_ref::<Injected>() {
        format!("injected fault {} {}", i.0.name(), i.1)
    } else {
        "<non-string panic payload>".to_string()
    }
}

pub enum ClosureAsk {
    CloneWeak,
    TryUpgrade,
}

#[allow(unused_imports)]
use {cc_to_weak as _, cc_unwrap as _, map_weak as _, weak_to_cc as _, with_val as _, with_weak as _};
