//! seed, profile -> Program. Pure: looks at nothing but its PRNG and a nominal shadow of the tables.

use crate::compat::*;
use crate::leaves::N_LAYOUTS;
use crate::node::STORE_KINDS;
use crate::program::*;
use crate::rng::{hash_str, mix, Rng};

#[derive(Clone, Copy, PartialEq)]
enum SK {
    Node(u32),
    Leaf,
    KeyI,
    KeyF,
}

struct Shadow {
    roots: Vec<(bool, SK)>,
    weaks: u32,
    cleanables: u32,
    bag: u32,
    objects: u32,
}

impl Shadow {
    fn live(&self) -> Vec<usize> {
        (0..self.roots.len()).filter(|i| self.roots[*i].0).collect()
    }
    fn live_nodes(&self) -> Vec<usize> {
        (0..self.roots.len()).filter(|i| self.roots[*i].0 && matches!(self.roots[*i].1, SK::Node(_))).collect()
    }
}

pub struct Params {
    pub ops: (u64, u64, u64),
    pub max_objects: u32,
    pub w: [u32; OpCode::COUNT],
    pub fin_rate: u32,  // percent of nodes that get a finalizer script
    pub drop_rate: u32, // percent of nodes that get a destructor script
    pub fin_minis: Vec<(MiniCode, u32)>,
    pub drop_minis: Vec<(MiniCode, u32)>,
    pub act_minis: Vec<(MiniCode, u32)>,
    pub clo_minis: Vec<(MiniCode, u32)>,
    pub idiom_rate: u32, // percent of steps that emit a structured block instead of one op
    pub faults: u32,     // percent of runs with a fault plan
    pub fault_kinds: Vec<FaultKind>,
    pub auto_rate: u32, // percent of runs with auto_collect on
    pub swarm: bool,
    pub all_stores: bool,
    pub leaf_rate: u32, // percent of creations that are leaves
    pub quiesce_end: bool,
    pub cleaner_idioms: bool,
    pub forward_idioms: bool,
    pub saturate_idioms: bool,
    pub chain_idioms: bool,
    pub survivors_idioms: bool,
    pub unwrap_idioms: bool,
    pub weak_idioms: bool,
    pub exact_threshold_prologue: u32, // percent of runs that start by driving allocated bytes exactly onto the threshold
}

fn set(w: &mut [u32; OpCode::COUNT], list: &[(OpCode, u32)]) {
    for (c, v) in list {
        w[*c as usize] = *v;
    }
}

pub fn params(profile: &str) -> Params {
    use MiniCode as M;
    use OpCode as O;
    let mut w = [0u32; OpCode::COUNT];
    set(
        &mut w,
        &[
            (O::New, 14), (O::NewLeaf, 2), (O::Clone, 10), (O::Drop, 16), (O::SetSlot, 18), (O::MoveSlot, 3), (O::ClearSlot, 5), (O::SetPin, 2), (O::ClearPin, 1),
            (O::MarkAlive, 2), (O::MarkAliveSlot, 1), (O::Collect, 7), (O::Quiesce, 2), (O::TryUnwrap, 2), (O::DropUnwrapped, 1),
        ],
    );
    if HAS_WEAK {
        set(&mut w, &[(O::Downgrade, 4), (O::WeakNew, 1), (O::WeakClone, 1), (O::WeakDrop, 2), (O::Upgrade, 4), (O::UpgradeDrop, 2), (O::StoreWeak, 2), (O::NewCyclic, 2)]);
    }
    if HAS_FIN {
        set(&mut w, &[(O::FinAgain, 1)]);
    }
    if HAS_AUTO {
        set(&mut w, &[(O::CfgAuto, 1), (O::CfgBuffered, 1), (O::CfgPercent, 1), (O::CfgReplace, 1), (O::NewBorrowed, 1)]);
    }
    if HAS_CLEAN {
        set(&mut w, &[(O::Register, 2), (O::Clean, 1), (O::DropCleanable, 1)]);
    }
    let fin_all = vec![
        (M::Read, 6), (M::ClearSlot, 4), (M::ChildToRoot, 5), (M::ChildToNode, 3), (M::GrandToRoot, 2), (M::SelfWeakToRoot, 2), (M::WeakToRoot, 3),
        (M::WeakToDrop, 2), (M::DropRoot, 4), (M::Alloc, 3), (M::AllocDrop, 2), (M::Collect, 2), (M::TryUnwrapRoot, 1), (M::FinAgainRoot, 1),
        (M::DowngradeRoot, 1), (M::MarkAliveRoot, 1), (M::SelfWeakToSlot, 1), (M::WeakToSlot, 1), (M::AllocCyclic, 1), (M::CollectCatch, 1),
    ];
    let drop_all = vec![(M::WeakToRoot, 4), (M::SelfWeakToRoot, 2), (M::Collect, 2), (M::TryUnwrapRoot, 1), (M::FinAgainRoot, 1), (M::Alloc, 1)];
    let act_all = vec![(M::WeakToRoot, 3), (M::WeakToDrop, 2), (M::Alloc, 2), (M::AllocDrop, 2), (M::CleanOther, 3), (M::Collect, 1), (M::DropRoot, 1)];
    let clo_all = vec![(M::SaveWeak, 5), (M::SelfWeak, 4), (M::TryUpgrade, 3), (M::CloneRootToSlot, 3), (M::Alloc, 2), (M::AllocDrop, 1), (M::Collect, 2)];
    let mut p = Params {
        ops: (3, 14, 64),
        max_objects: 32,
        w,
        fin_rate: if HAS_FIN { 30 } else { 0 },
        drop_rate: 15,
        fin_minis: fin_all.clone(),
        drop_minis: drop_all.clone(),
        act_minis: act_all.clone(),
        clo_minis: clo_all.clone(),
        idiom_rate: 25,
        faults: 0,
        fault_kinds: vec![],
        auto_rate: 40,
        swarm: true,
        all_stores: true,
        leaf_rate: 10,
        quiesce_end: true,
        cleaner_idioms: false,
        forward_idioms: false,
        saturate_idioms: false,
        chain_idioms: false,
        survivors_idioms: false,
        unwrap_idioms: false,
        weak_idioms: false,
        exact_threshold_prologue: 0,
    };
    let all_faults = vec![
        FaultKind::Trace, FaultKind::TraceEdge, FaultKind::Finalize, FaultKind::FinalizePost, FaultKind::Drop, FaultKind::DropPost,
        FaultKind::LeafFinalize, FaultKind::LeafDrop, FaultKind::Action, FaultKind::Closure,
    ];
    if let Some(base) = profile.strip_suffix("-faults") {
        if base != "graph" && base != "cyclic" {
            // any profile with injected callback panics on top
            let mut q = params(base);
            q.faults = 100;
            q.fault_kinds = all_faults;
            return q;
        }
    }
    match profile {
        "graph" => {}
        "graph-faults" => {
            p.faults = 100;
            p.fault_kinds = all_faults;
        }
        "finalize" => {
            p.chain_idioms = true;
            p.fin_rate = 75;
            p.drop_rate = 10;
            set(&mut p.w, &[(O::FinAgain, 4), (O::Collect, 10)]);
        }
        "resurrect" => {
            p.chain_idioms = true;
            p.fin_rate = 85;
            p.fin_minis = vec![(M::ChildToRoot, 8), (M::ChildToNode, 5), (M::GrandToRoot, 3), (M::SelfWeakToRoot, 5), (M::WeakToRoot, 5), (M::DropRoot, 4), (M::ClearSlot, 3), (M::Alloc, 3), (M::Read, 3), (M::AllocDrop, 2), (M::SelfWeakToSlot, 4), (M::WeakToSlot, 4)];
            p.idiom_rate = 45;
            set(&mut p.w, &[(O::Collect, 12), (O::StoreWeak, 5), (O::NewCyclic, 5)]);
        }
        "weak" => {
            set(&mut p.w, &[(O::Downgrade, 12), (O::WeakClone, 5), (O::WeakDrop, 7), (O::Upgrade, 10), (O::UpgradeDrop, 6), (O::StoreWeak, 8), (O::NewCyclic, 5), (O::WeakNew, 2), (O::TryUnwrap, 4)]);
            p.weak_idioms = true;
            p.fin_rate = 40;
            p.drop_rate = 45;
            p.fin_minis = vec![(M::WeakToRoot, 6), (M::WeakToDrop, 4), (M::SelfWeakToRoot, 4), (M::Read, 2), (M::DropRoot, 2), (M::ClearSlot, 2), (M::DowngradeRoot, 2), (M::ChildToRoot, 3), (M::WeakToSlot, 2), (M::SelfWeakToSlot, 2)];
            p.drop_minis = vec![(M::WeakToRoot, 8), (M::SelfWeakToRoot, 4), (M::Collect, 1)];
        }
        "cleaner" => {
            set(&mut p.w, &[(O::Register, 14), (O::Clean, 8), (O::DropCleanable, 4), (O::Downgrade, 5), (O::Collect, 8), (O::BulkRegister, 3), (O::BulkClean, 3)]);
            p.fin_rate = 10;
            p.drop_rate = 5;
            p.cleaner_idioms = true;
            p.idiom_rate = 40;
        }
        "buffer" => {
            // C11 exact: finalizers and destructors observe but never manipulate pointers; no cleaners
            p.fin_minis = vec![(M::Read, 1)];
            p.drop_minis = vec![];
            p.drop_rate = 0;
            set(&mut p.w, &[(O::Register, 0), (O::Clean, 0), (O::DropCleanable, 0), (O::NewBorrowed, 0), (O::MarkAlive, 6), (O::MarkAliveSlot, 4), (O::Clone, 14), (O::Drop, 18)]);
        }
        "nesting" => {
            p.fin_rate = if HAS_FIN { 70 } else { 0 };
            p.drop_rate = 60;
            p.fin_minis = vec![(M::Collect, 6), (M::CollectCatch, 3), (M::Alloc, 5), (M::AllocDrop, 3), (M::AllocCyclic, 3), (M::TryUnwrapRoot, 4), (M::FinAgainRoot, 4), (M::DropRoot, 4), (M::Read, 1)];
            p.drop_minis = vec![(M::Collect, 6), (M::CollectCatch, 2), (M::Alloc, 4), (M::AllocCyclic, 2), (M::TryUnwrapRoot, 3), (M::FinAgainRoot, 3)];
            p.act_minis = vec![(M::Collect, 5), (M::Alloc, 4), (M::AllocDrop, 3), (M::AllocCyclic, 2), (M::CleanOther, 2)];
            p.auto_rate = 70;
            set(&mut p.w, &[(O::Register, 5), (O::Clean, 3)]);
        }
        "unwrap" => {
            set(&mut p.w, &[(O::TryUnwrap, 16), (O::DropUnwrapped, 6), (O::NewLeaf, 8), (O::Downgrade, 6), (O::NewCyclic, 4), (O::Upgrade, 4), (O::FinAgain, 2)]);
            p.leaf_rate = 35;
            p.unwrap_idioms = true;
        }
        "cyclic" => {
            set(&mut p.w, &[(O::NewCyclic, 16), (O::NewCyclicLeaf, 5), (O::Upgrade, 8), (O::UpgradeDrop, 4), (O::WeakDrop, 4), (O::CfgBuffered, 3), (O::CfgAuto, 2)]);
            p.auto_rate = 80;
            p.survivors_idioms = true;
            p.drop_rate = 35;
            p.drop_minis = vec![(M::AllocCyclic, 4), (M::WeakToRoot, 2), (M::Collect, 1), (M::Alloc, 1)];
        }
        "cyclic-faults" => {
            set(&mut p.w, &[(O::NewCyclic, 16), (O::NewCyclicLeaf, 5), (O::Upgrade, 8), (O::UpgradeDrop, 4), (O::WeakDrop, 4), (O::CfgBuffered, 3), (O::CfgAuto, 2)]);
            p.auto_rate = 90;
            p.drop_rate = 35;
            p.drop_minis = vec![(M::AllocCyclic, 4), (M::WeakToRoot, 2), (M::Collect, 1), (M::Alloc, 1)];
            p.faults = 100;
            p.fault_kinds = vec![FaultKind::Closure, FaultKind::Closure, FaultKind::Trace, FaultKind::TraceEdge, FaultKind::Finalize, FaultKind::Drop];
        }
        "policy" => {
            set(&mut p.w, &[(O::New, 22), (O::NewLeaf, 16), (O::CfgAuto, 4), (O::CfgBuffered, 4), (O::CfgPercent, 6), (O::CfgReplace, 4), (O::NewInConfig, 2), (O::Collect, 5), (O::Drop, 22)]);
            p.auto_rate = 90;
            p.leaf_rate = 45;
            p.ops = (6, 24, 64);
            p.fin_rate = 10;
            p.drop_rate = 0;
            p.exact_threshold_prologue = 25;
            p.survivors_idioms = true;
        }
        "saturate" => {
            set(&mut p.w, &[(O::BulkClone, 10), (O::BulkUpgrade, 6), (O::BulkWeakClone, 6), (O::BulkDowngrade, 6), (O::BulkDrop, 6), (O::BulkWeakDrop, 4), (O::Clone, 8), (O::Upgrade, 6), (O::Downgrade, 6), (O::WeakClone, 4), (O::BulkRegister, 4), (O::BulkClean, 3), (O::BulkEdges, 6), (O::BulkEdgesDrop, 3), (O::Collect, 10)]);
            p.ops = (4, 12, 30);
            p.max_objects = 6;
            p.idiom_rate = 15;
            p.saturate_idioms = true;
        }
        "layout" => {
            set(&mut p.w, &[(O::NewLeaf, 30), (O::NewCyclicLeaf, 6), (O::TryUnwrap, 8), (O::DropUnwrapped, 4), (O::SetSlot, 22)]);
            p.leaf_rate = 70;
        }
        "containers" => {
            p.idiom_rate = 55;
            p.fault_kinds = vec![FaultKind::TraceEdge];
            p.faults = 15;
        }
        "forward" => {
            set(&mut p.w, &[(O::NewKeyI, 14), (O::NewKeyF, 14), (O::NewDefault, 3), (O::Compare, 30), (O::NewLeaf, 10), (O::Downgrade, 6), (O::Collect, 8), (O::DebugChain, 2), (O::CmpChain, 24)]);
            p.forward_idioms = true;
        }
        _ => {}
    }
    p
}

struct Gen<'a> {
    r: Rng,
    p: &'a Params,
    sh: Shadow,
    ops: Vec<Op>,
    stores: Vec<u16>,
    w: [u32; OpCode::COUNT],
}

impl<'a> Gen<'a> {
    fn script(&mut self, pool: &[(MiniCode, u32)], max: u64) -> Script {
        if pool.is_empty() {
            return vec![];
        }
        let n = 1 + self.r.below(max);
        let ws: Vec<u32> = pool.iter().map(|x| x.1).collect();
        (0..n)
            .map(|_| {
                let c = pool[self.r.weighted(&ws)].0;
                let h = self.handle_guess();
                let a = [self.r.below(8) as i64, if c.nargs() >= 2 { h } else { 0 }, self.r.below(8) as i64];
                let a = match c {
                    MiniCode::DropRoot | MiniCode::TryUnwrapRoot | MiniCode::FinAgainRoot | MiniCode::DowngradeRoot | MiniCode::MarkAliveRoot | MiniCode::CleanOther => [h, 0, 0],
                    MiniCode::Alloc | MiniCode::AllocDrop | MiniCode::AllocCyclic => [*self.r.pick(&self.stores) as i64, 0, 0],
                    MiniCode::CloneRootToSlot => [self.r.below(4) as i64, h, 0],
                    _ => a,
                };
                Mini { code: c, a }
            })
            .collect()
    }

    fn handle_guess(&mut self) -> i64 {
        let live = self.sh.live();
        if live.is_empty() || self.r.chance(1, 10) {
            self.r.below(8) as i64
        } else {
            *self.r.pick(&live) as i64
        }
    }

    fn node_guess(&mut self) -> i64 {
        let live = self.sh.live_nodes();
        if live.is_empty() || self.r.chance(1, 12) {
            self.r.below(8) as i64
        } else {
            *self.r.pick(&live) as i64
        }
    }

    fn tmpl(&mut self) -> NodeTmpl {
        let store = *self.r.pick(&self.stores);
        let fin = if self.r.below(100) < self.p.fin_rate as u64 { let pool = self.p.fin_minis.clone(); self.script(&pool, 3) } else { vec![] };
        let drop = if self.r.below(100) < self.p.drop_rate as u64 { let pool = self.p.drop_minis.clone(); self.script(&pool, 2) } else { vec![] };
        NodeTmpl { store, fin, drop }
    }

    fn nslots_of(store: u16) -> u32 {
        // nominal slot count of a store kind (only a bias for the generator)
        let (_, v, n, pat, _) = STORE_KINDS[store as usize];
        match v {
            "V" | "BS" | "BV" | "MDV" | "RCV" | "VB" | "BBS" => n as u32,
            "A0" => 0, "A1" => 1, "A2" => 2, "A3" => 3, "A8" => 8, "A32" => 32,
            "O" | "ORC" => if pat & 1 == 0 { 1 } else { 0 },
            "R" => if pat & 1 == 0 { 1 } else { 2 },
            "B" | "MD" | "AUS" | "RC" => 1,
            "VO" => 2, "BA" => 3, "OBT" => if pat & 1 == 0 { 2 } else { 0 }, "AV" => 2 * n as u32, "TRO" => 2 - (pat >> 1 & 1),
            "AUT" => 2, "VT" => 2 * n as u32, "AO" => 2, "RR" => if pat & 1 == 0 { n as u32 } else { 1 },
            "VMD" | "BSMD" | "VAUS" | "VRC" => n as u32, "AOMD" | "TMD" => 2,
            t if t.starts_with('T') => t[1..].parse().unwrap_or(1),
            _ => 1,
        }
    }

    fn push(&mut self, op: Op) {
        // nominal effects on the shadow
        match op.code {
            OpCode::New | OpCode::NewCyclic | OpCode::NewBorrowed | OpCode::NewInConfig => {
                let ns = Gen::nslots_of(op.tmpl.as_ref().map_or(0, |t| t.store));
                self.sh.roots.push((true, SK::Node(ns)));
                self.sh.objects += 1;
            }
            OpCode::NewLeaf | OpCode::NewCyclicLeaf => {
                self.sh.roots.push((true, SK::Leaf));
                self.sh.objects += 1;
            }
            OpCode::NewKeyI | OpCode::NewDefault => {
                self.sh.roots.push((true, SK::KeyI));
                self.sh.objects += 1;
            }
            OpCode::NewKeyF => {
                self.sh.roots.push((true, SK::KeyF));
                self.sh.objects += 1;
            }
            OpCode::Clone => {
                let i = op.a[0] as usize;
                if i < self.sh.roots.len() && self.sh.roots[i].0 {
                    let k = self.sh.roots[i].1;
                    self.sh.roots.push((true, k));
                }
            }
            OpCode::Drop | OpCode::TryUnwrap => {
                let i = op.a[0] as usize;
                if i < self.sh.roots.len() {
                    self.sh.roots[i].0 = false;
                }
                if op.code == OpCode::TryUnwrap {
                    self.sh.bag += 1;
                }
            }
            OpCode::Upgrade => {
                self.sh.roots.push((true, SK::Node(2)));
            }
            OpCode::Downgrade | OpCode::WeakNew | OpCode::WeakClone => self.sh.weaks += 1,
            OpCode::Register => self.sh.cleanables += 1,
            _ => {}
        }
        self.ops.push(op);
    }

    fn one(&mut self) {
        let code = OPS[self.r.weighted(&self.w)].0;
        use OpCode as O;
        let too_many = self.sh.objects >= self.p.max_objects;
        let h = self.handle_guess();
        let n = self.node_guess();
        let op = match code {
            O::New | O::NewBorrowed | O::NewInConfig | O::NewCyclic | O::NewLeaf | O::NewCyclicLeaf | O::NewKeyI | O::NewKeyF | O::NewDefault if too_many => Op::new(O::Drop, &[h]),
            O::New => {
                if self.r.below(100) < self.p.leaf_rate as u64 {
                    Op::new(O::NewLeaf, &[self.r.below(N_LAYOUTS as u64) as i64])
                } else {
                    let t = self.tmpl();
                    Op::new(O::New, &[]).with_tmpl(t)
                }
            }
            O::NewBorrowed => {
                let t = self.tmpl();
                let mode = self.r.below(2) as i64;
                Op::new(O::NewBorrowed, &[n, mode]).with_tmpl(t)
            }
            O::NewInConfig => {
                let t = self.tmpl();
                Op::new(O::NewInConfig, &[]).with_tmpl(t)
            }
            O::NewCyclic => {
                let t = self.tmpl();
                let pool = self.p.clo_minis.clone();
                let s = if self.r.chance(4, 5) { self.script(&pool, 3) } else { vec![] };
                Op::new(O::NewCyclic, &[]).with_tmpl(t).with_script(s)
            }
            O::NewCyclicLeaf => {
                let pool: Vec<(MiniCode, u32)> = self.p.clo_minis.iter().copied().filter(|m| m.0 != MiniCode::SelfWeak && m.0 != MiniCode::CloneRootToSlot).collect();
                let s = if self.r.chance(3, 4) { self.script(&pool, 2) } else { vec![] };
                Op::new(O::NewCyclicLeaf, &[self.r.below(N_LAYOUTS as u64) as i64]).with_script(s)
            }
            O::NewLeaf => Op::new(O::NewLeaf, &[self.r.below(N_LAYOUTS as u64) as i64]),
            O::NewKeyI => Op::new(O::NewKeyI, &[self.r.below(5) as i64 - 2]),
            O::NewKeyF => Op::new(O::NewKeyF, &[self.r.below(8) as i64]),
            O::SetSlot => Op::new(O::SetSlot, &[n, self.r.below(6) as i64, if self.r.chance(1, 6) { n } else { h }]),
            O::MoveSlot => Op::new(O::MoveSlot, &[n, self.r.below(6) as i64, h]),
            O::ClearSlot | O::MarkAliveSlot => Op::new(code, &[n, self.r.below(6) as i64]),
            O::SetPin => Op::new(O::SetPin, &[n, h]),
            O::ClearPin => Op::new(O::ClearPin, &[n, self.r.below(3) as i64]),
            O::StoreWeak => Op::new(O::StoreWeak, &[n, self.r.below(self.sh.weaks.max(1) as u64) as i64]),
            O::WeakNew => Op::new(O::WeakNew, &[self.r.below(3) as i64]),
            O::WeakClone | O::WeakDrop | O::Upgrade | O::UpgradeDrop => Op::new(code, &[self.r.below(self.sh.weaks.max(1) as u64) as i64]),
            O::DropUnwrapped => Op::new(O::DropUnwrapped, &[self.r.below(self.sh.bag.max(1) as u64) as i64]),
            O::CfgAuto => Op::new(O::CfgAuto, &[self.r.below(2) as i64]),
            O::CfgBuffered => Op::new(O::CfgBuffered, &[*self.r.pick(&[0i64, 1, 1, 2, 5])]),
            O::CfgPercent => {
                let v = if self.r.chance(1, 3) { self.r.below(1001) as i64 } else { *self.r.pick(&[0i64, 1, 100, 500, 1000, 999, 250, 2000, 37, 290, 125]) };
                Op::new(O::CfgPercent, &[v])
            }
            O::CfgReplace => Op::new(O::CfgReplace, &[self.r.below(3) as i64]),
            O::Register => {
                let pool = self.p.act_minis.clone();
                let s = if self.r.chance(3, 5) { self.script(&pool, 2) } else { vec![] };
                let cap = if self.r.chance(1, 3) { h } else { -1 };
                Op::new(O::Register, &[n, cap]).with_script(s)
            }
            O::Clean | O::DropCleanable => Op::new(code, &[self.r.below(self.sh.cleanables.max(1) as u64) as i64]),
            O::BulkClone | O::BulkDrop => Op::new(code, &[h, self.bulk_n(16382)]),
            O::BulkUpgrade => Op::new(code, &[self.r.below(self.sh.weaks.max(1) as u64) as i64, self.bulk_n(16382)]),
            O::BulkWeakClone | O::BulkWeakDrop => Op::new(code, &[self.r.below(self.sh.weaks.max(1) as u64) as i64, self.bulk_n(32767)]),
            O::BulkDowngrade => Op::new(code, &[h, self.bulk_n(32767)]),
            O::BulkRegister => Op::new(code, &[n, if self.r.chance(1, 3) { self.bulk_n(32767) } else { 1 + self.r.below(40) as i64 }]),
            O::BulkClean => Op::new(code, &[n, 1 + self.r.below(60) as i64]),
            O::BulkEdges => Op::new(code, &[n, h, self.bulk_n(16382)]),
            O::BulkEdgesDrop => Op::new(code, &[n, self.bulk_n(16382)]),
            O::DebugChain => Op::new(code, &[*self.r.pick(&[1i64, 2, 5, 40, 127, 128, 129, 130, 200, 300])]),
            O::CmpChain => {
                let m = 1 + self.r.below(4) as i64;
                let cyc = self.r.chance(2, 3) as i64;
                let entry = self.r.below(m as u64) as i64;
                let n = 1 + self.r.below(12) as i64;
                // differ somewhere inside the right chain, or nowhere (the right chain is then a pure unrolling)
                let d = if self.r.chance(1, 3) { 2 * 30 } else { 2 * self.r.below(n as u64) as i64 + self.r.below(2) as i64 };
                Op::new(O::CmpChain, &[m | (cyc << 8) | (entry << 12), n, d])
            }
            O::Compare => Op::new(O::Compare, &[h, self.handle_guess()]),
            O::Collect | O::Quiesce | O::Observe | O::NewDefault => Op::new(code, &[]),
            _ => Op::new(code, &[h]),
        };
        self.push(op);
    }

    fn bulk_n(&mut self, max: i64) -> i64 {
        match self.r.below(6) {
            0 => max + 3 - self.r.below(7) as i64,
            1 => max - self.r.below(4) as i64,
            2 => max + 50,
            3 => self.r.below(40) as i64,
            4 => max / 2,
            _ => max - 1 - self.r.below(3) as i64,
        }
    }

    /// Structured blocks: the graph shapes the quantifiers list.
    fn idiom(&mut self) {
        use OpCode as O;
        let base = self.sh.roots.len() as i64;
        if self.p.chain_idioms && HAS_FIN && self.r.chance(1, 6) && self.sh.objects + 12 <= self.p.max_objects {
            // a chain of k self-cycles: the finalizer of link i releases the last handle of link i+1, so one collection
            // needs k passes (the documented cap is 10); the last link resurrects itself
            let k = 7 + self.r.below(6) as i64;
            for i in 0..k {
                let fin = if i + 1 < k {
                    vec![Mini::new(MiniCode::DropRoot, &[base + i + 1])]
                } else {
                    match self.r.below(3) {
                        0 => vec![Mini::new(MiniCode::ChildToRoot, &[0])],
                        1 => vec![Mini::new(MiniCode::Read, &[])],
                        _ => vec![Mini::new(MiniCode::ChildToRoot, &[0]), Mini::new(MiniCode::Alloc, &[0])],
                    }
                };
                let store = STORE_KINDS.iter().position(|s| s.0 == "vec1").unwrap() as u16;
                self.push(Op::new(O::New, &[]).with_tmpl(NodeTmpl { store, fin, drop: vec![] }));
            }
            for i in 0..k {
                self.push(Op::new(O::SetSlot, &[base + i, 0, base + i]));
            }
            self.push(Op::new(O::Drop, &[base]));
            self.push(Op::new(O::Collect, &[]));
            if self.r.chance(1, 2) {
                self.push(Op::new(O::Collect, &[]));
            }
            return;
        }
        if self.p.survivors_idioms && HAS_AUTO && self.r.chance(1, 4) && self.sh.objects + 6 <= self.p.max_objects {
            // a garbage cycle whose members point at several objects that stay alive: reclaiming it buffers the survivors
            // again (without finalization they are still buffered when the collection returns); then a creation that is
            // due to collect: exactly one collection per creation, whatever the first one leaves behind
            let k = 2 + self.r.below(3) as i64;
            for _ in 0..k {
                let t = self.tmpl();
                self.push(Op::new(O::New, &[]).with_tmpl(t));
            }
            let store = STORE_KINDS.iter().position(|s| s.0 == "vec5").unwrap() as u16;
            self.push(Op::new(O::New, &[]).with_tmpl(NodeTmpl { store, fin: vec![], drop: vec![] }));
            let g = base + k;
            self.push(Op::new(O::SetSlot, &[g, 0, g]));
            for i in 0..k {
                self.push(Op::new(O::SetSlot, &[g, 1 + i, base + i]));
            }
            self.push(Op::new(O::CfgAuto, &[1]));
            self.push(Op::new(O::CfgBuffered, &[1]));
            self.push(Op::new(O::Drop, &[g]));
            let t = self.tmpl();
            if HAS_WEAK && self.r.chance(2, 3) {
                self.push(Op::new(O::NewCyclic, &[]).with_tmpl(t).with_script(vec![Mini::new(MiniCode::SelfWeak, &[])]));
            } else {
                self.push(Op::new(O::New, &[]).with_tmpl(t));
            }
            return;
        }
        if self.p.saturate_idioms && self.r.chance(1, 2) {
            // every one of (about) 16382 pointers to one object sits in a traced field of a live owner, and a collection
            // visits them all: the tracing counter itself reaches the limit
            let t = self.tmpl();
            self.push(Op::new(O::New, &[]).with_tmpl(t));
            let t2 = self.tmpl();
            self.push(Op::new(O::New, &[]).with_tmpl(t2));
            if HAS_WEAK {
                self.push(Op::new(O::Downgrade, &[base + 1]));
            }
            let n = 16381 - self.r.below(3) as i64 + if self.r.chance(1, 4) { 2 } else { 0 };
            self.push(Op::new(O::BulkEdges, &[base, base + 1, n]));
            self.push(Op::new(O::MoveSlot, &[base, 0, base + 1]));
            self.push(Op::new(O::Clone, &[base]));
            let c = self.sh.roots.len() as i64 - 1;
            self.push(Op::new(O::Drop, &[c]));
            self.push(Op::new(O::Collect, &[]));
            if HAS_WEAK {
                let w = (self.sh.weaks as i64 - 1).max(0);
                let code = if self.r.chance(1, 2) { O::Upgrade } else { O::UpgradeDrop };
                self.push(Op::new(code, &[w]));
            }
            if self.r.chance(1, 2) {
                self.push(Op::new(O::Drop, &[base]));
                self.push(Op::new(O::Collect, &[]));
            }
            return;
        }
        if self.p.cleaner_idioms && HAS_CLEAN && HAS_WEAK && self.r.chance(1, 5) && self.sh.objects + 4 <= self.p.max_objects {
            // a garbage ring whose members' cleaning actions upgrade weak pointers to the other members: the actions run in
            // a plain drop of the cleaner's private map nested in the collector's drop phase, some before and some after the
            // destruction of the member they ask for
            let k = 2 + self.r.below(2) as i64;
            for _ in 0..k {
                let t = self.tmpl();
                self.push(Op::new(O::New, &[]).with_tmpl(t));
            }
            let w0 = self.sh.weaks as i64;
            for i in 0..k {
                self.push(Op::new(O::Downgrade, &[base + i]));
            }
            for i in 0..k {
                self.push(Op::new(O::SetSlot, &[base + i, 0, base + (i + 1) % k]));
            }
            for i in 0..k {
                for _ in 0..1 + self.r.below(2) {
                    let j = w0 + self.r.below(k as u64) as i64;
                    let code = if self.r.chance(1, 2) { MiniCode::WeakToRoot } else { MiniCode::WeakToDrop };
                    self.push(Op::new(O::Register, &[base + i, -1]).with_script(vec![Mini::new(code, &[j])]));
                }
            }
            let first = self.r.below(k as u64) as i64;
            for i in 0..k {
                self.push(Op::new(O::Drop, &[base + (first + i) % k]));
            }
            self.push(Op::new(O::Collect, &[]));
            for i in 0..k {
                self.push(Op::new(O::UpgradeDrop, &[w0 + i]));
            }
            return;
        }
        if self.p.unwrap_idioms && self.r.chance(2, 5) && self.sh.objects + 3 <= self.p.max_objects {
            // try_unwrap of an object with history: buffered by an earlier clone, weakly referenced, made by new_cyclic,
            // member of a two-object chain; first refused because a second pointer exists, then granted, then the weak
            // pointers are tried and the value is destroyed
            let kind = self.r.below(4);
            match kind {
                0 => {
                    let ly = self.r.below(N_LAYOUTS as u64) as i64;
                    self.push(Op::new(O::NewLeaf, &[ly]));
                }
                1 if HAS_WEAK => {
                    let t = self.tmpl();
                    let s = if self.r.chance(1, 2) { vec![Mini::new(MiniCode::SaveWeak, &[])] } else { vec![] };
                    self.push(Op::new(O::NewCyclic, &[]).with_tmpl(t).with_script(s));
                }
                _ => {
                    let t = self.tmpl();
                    self.push(Op::new(O::New, &[]).with_tmpl(t));
                }
            }
            let mut next = base + 1;
            if kind >= 1 && self.r.chance(1, 3) {
                // the value owns another object: moving it out must not disturb the child
                let t = self.tmpl();
                self.push(Op::new(O::New, &[]).with_tmpl(t));
                self.push(Op::new(O::SetSlot, &[base, 0, next]));
                if self.r.chance(1, 2) {
                    self.push(Op::new(O::Drop, &[next]));
                }
                next += 1;
            }
            if self.r.chance(2, 3) {
                self.push(Op::new(O::Clone, &[base]));
                self.push(Op::new(O::Drop, &[next]));
                next += 1;
            }
            let w0 = self.sh.weaks as i64;
            let mut nw = 0;
            if HAS_WEAK {
                for _ in 0..self.r.below(3) {
                    self.push(Op::new(O::Downgrade, &[base]));
                    nw += 1;
                }
            }
            if self.r.chance(1, 4) {
                self.push(Op::new(O::Collect, &[]));
            }
            if self.r.chance(1, 2) {
                // refused: a second pointer exists
                self.push(Op::new(O::Clone, &[base]));
                self.push(Op::new(O::TryUnwrap, &[base]));
                if nw > 0 {
                    self.push(Op::new(O::UpgradeDrop, &[w0]));
                }
                self.push(Op::new(O::Drop, &[next]));
            }
            self.push(Op::new(O::TryUnwrap, &[base]));
            for i in 0..nw {
                let code = if self.r.chance(1, 2) { O::Upgrade } else { O::UpgradeDrop };
                self.push(Op::new(code, &[w0 + i]));
            }
            if self.r.chance(1, 2) {
                self.push(Op::new(O::Collect, &[]));
            }
            if self.r.chance(3, 4) {
                let b = (self.sh.bag as i64 - 1).max(0);
                self.push(Op::new(O::DropUnwrapped, &[b]));
            }
            if self.r.chance(1, 3) {
                self.push(Op::new(O::Collect, &[]));
            }
            return;
        }
        if self.p.weak_idioms && HAS_WEAK && self.r.chance(2, 5) && self.sh.objects + 4 <= self.p.max_objects {
            // a group whose members hold weak pointers to every member (themselves included) and upgrade them from their
            // finalizers and destructors; the same weak pointers are upgraded at top level at every stage of the group's
            // life: held, unreferenced but not yet collected (cyclic) or kept by an upgraded pointer (acyclic), reclaimed
            if self.r.chance(1, 3) {
                // a garbage cycle whose member solely owns, through an untraced field, an acyclic object that holds weak
                // pointers to the cycle's members: that object is finalized and destroyed by a plain Cc::drop nested in
                // the collector's drop phase, and its finalizer and destructor try to upgrade those weak pointers
                let plain = |g: &mut Gen| {
                    let mut t = g.tmpl();
                    if g.r.chance(2, 3) {
                        t.fin = vec![];
                    }
                    if g.r.chance(2, 3) {
                        t.drop = vec![];
                    }
                    t
                };
                let t1 = plain(self);
                self.push(Op::new(O::New, &[]).with_tmpl(t1));
                let t2 = plain(self);
                self.push(Op::new(O::New, &[]).with_tmpl(t2));
                let mut ta = self.tmpl();
                let mut fin = vec![];
                for _ in 0..1 + self.r.below(2) {
                    let j = self.r.below(2) as i64;
                    fin.push(match self.r.below(3) {
                        0 => Mini::new(MiniCode::WeakToRoot, &[j]),
                        1 => Mini::new(MiniCode::WeakToSlot, &[j, 1 + self.r.below(3) as i64]),
                        _ => Mini::new(MiniCode::WeakToDrop, &[j]),
                    });
                }
                ta.fin = if HAS_FIN { fin } else { vec![] };
                ta.drop = vec![Mini::new(MiniCode::WeakToRoot, &[self.r.below(2) as i64])];
                self.push(Op::new(O::New, &[]).with_tmpl(ta));
                let w0 = self.sh.weaks as i64;
                self.push(Op::new(O::Downgrade, &[base]));
                self.push(Op::new(O::Downgrade, &[base + 1]));
                self.push(Op::new(O::StoreWeak, &[base + 2, w0]));
                self.push(Op::new(O::StoreWeak, &[base + 2, w0 + 1]));
                self.push(Op::new(O::SetSlot, &[base, 0, base + 1]));
                self.push(Op::new(O::SetSlot, &[base + 1, 0, base]));
                let holder = base + self.r.below(2) as i64;
                self.push(Op::new(O::SetPin, &[holder, base + 2]));
                self.push(Op::new(O::Drop, &[base + 2]));
                if self.r.chance(1, 2) {
                    self.push(Op::new(O::Drop, &[base]));
                    self.push(Op::new(O::Drop, &[base + 1]));
                } else {
                    self.push(Op::new(O::Drop, &[base + 1]));
                    self.push(Op::new(O::Drop, &[base]));
                }
                self.push(Op::new(O::Collect, &[]));
                self.push(Op::new(O::UpgradeDrop, &[w0]));
                self.push(Op::new(O::UpgradeDrop, &[w0 + 1]));
                return;
            }
            let k = 1 + self.r.below(3) as i64;
            let cyclic = k > 1 || self.r.chance(1, 2);
            for _ in 0..k {
                let mut t = self.tmpl();
                let mut fin = vec![];
                for _ in 0..self.r.below(3) {
                    let j = self.r.below(k as u64 + 1) as i64;
                    fin.push(match self.r.below(5) {
                        0 => Mini::new(MiniCode::WeakToRoot, &[j]),
                        1 => Mini::new(MiniCode::WeakToSlot, &[j, 1 + self.r.below(3) as i64]),
                        2 => Mini::new(MiniCode::SelfWeakToRoot, &[]),
                        _ => Mini::new(MiniCode::WeakToDrop, &[j]),
                    });
                }
                if HAS_FIN && !fin.is_empty() {
                    t.fin = fin;
                }
                if self.r.chance(2, 3) {
                    let j = self.r.below(k as u64 + 1) as i64;
                    t.drop = vec![Mini::new(MiniCode::WeakToRoot, &[j])];
                    if self.r.chance(1, 3) {
                        t.drop.push(Mini::new(MiniCode::SelfWeakToRoot, &[]));
                    }
                }
                self.push(Op::new(O::New, &[]).with_tmpl(t));
            }
            let w0 = self.sh.weaks as i64;
            for i in 0..k {
                self.push(Op::new(O::Downgrade, &[base + i]));
            }
            for i in 0..k {
                for j in 0..k {
                    self.push(Op::new(O::StoreWeak, &[base + i, w0 + j]));
                }
            }
            if cyclic {
                for i in 0..k {
                    self.push(Op::new(O::SetSlot, &[base + i, 0, base + (i + 1) % k]));
                }
            }
            self.push(Op::new(O::Upgrade, &[w0]));
            let up = base + k;
            for i in 0..k {
                self.push(Op::new(O::Drop, &[base + i]));
            }
            self.push(Op::new(O::UpgradeDrop, &[w0 + k - 1]));
            self.push(Op::new(O::Drop, &[up]));
            let wi = w0 + self.r.below(k as u64) as i64;
            self.push(Op::new(O::UpgradeDrop, &[wi]));
            self.push(Op::new(O::Collect, &[]));
            for i in 0..k {
                let code = if self.r.chance(1, 3) { O::Upgrade } else { O::UpgradeDrop };
                self.push(Op::new(code, &[w0 + i]));
            }
            if self.r.chance(1, 2) {
                self.push(Op::new(O::Collect, &[]));
                self.push(Op::new(O::UpgradeDrop, &[w0]));
            }
            return;
        }
        if self.p.forward_idioms && self.r.chance(1, 2) {
            // two distinct allocations of the same payload type (zero-sized and over-aligned ones included), a clone, and
            // every pairing compared: ptr_eq must tell allocations apart, not values or addresses of zero-sized values
            let ly = if self.r.chance(1, 2) { self.r.below(8) as i64 } else { self.r.below(N_LAYOUTS as u64) as i64 };
            self.push(Op::new(O::NewLeaf, &[ly]));
            self.push(Op::new(O::NewLeaf, &[ly]));
            self.push(Op::new(O::Clone, &[base]));
            for (x, y) in [(base, base + 1), (base, base + 2), (base + 1, base + 1), (base + 2, base + 1)] {
                self.push(Op::new(O::Compare, &[x, y]));
            }
            if self.r.chance(1, 2) {
                // the same questions after the allocation got a weak side record, sat in the buffer and survived a collection
                if HAS_WEAK {
                    self.push(Op::new(O::Downgrade, &[base]));
                }
                self.push(Op::new(O::Clone, &[base + 1]));
                self.push(Op::new(O::Drop, &[base + 3]));
                self.push(Op::new(O::Drop, &[base + 2]));
                self.push(Op::new(O::Collect, &[]));
                self.push(Op::new(O::Compare, &[base, base + 1]));
                self.push(Op::new(O::Clone, &[base]));
                self.push(Op::new(O::Compare, &[base, base + 4]));
            }
            return;
        }
        let kinds = if self.p.cleaner_idioms { 11 } else { 9 };
        let pick = if self.p.cleaner_idioms && self.r.chance(1, 3) { 9 } else { self.r.below(kinds) };
        match pick {
            0 => {
                // self loop, dropped
                let t = self.tmpl();
                self.push(Op::new(O::New, &[]).with_tmpl(t));
                self.push(Op::new(O::SetSlot, &[base, 0, base]));
                self.push(Op::new(O::Drop, &[base]));
            }
            1 | 2 => {
                // ring of k, maybe keep one handle
                let k = 2 + self.r.below(3) as i64;
                for _ in 0..k {
                    let t = self.tmpl();
                    self.push(Op::new(O::New, &[]).with_tmpl(t));
                }
                for i in 0..k {
                    let sl = self.r.below(4) as i64;
                    self.push(Op::new(O::SetSlot, &[base + i, sl, base + (i + 1) % k]));
                }
                let keep = if self.r.chance(1, 3) { self.r.below(k as u64) as i64 } else { -1 };
                for i in 0..k {
                    if i != keep {
                        self.push(Op::new(O::Drop, &[base + i]));
                    }
                }
            }
            3 => {
                // cycle with an acyclic tail and a leaf hanging off it
                for _ in 0..3 {
                    let t = self.tmpl();
                    self.push(Op::new(O::New, &[]).with_tmpl(t));
                }
                let ly = self.r.below(N_LAYOUTS as u64) as i64;
                self.push(Op::new(O::NewLeaf, &[ly]));
                self.push(Op::new(O::SetSlot, &[base, 0, base + 1]));
                self.push(Op::new(O::SetSlot, &[base + 1, 0, base]));
                self.push(Op::new(O::SetSlot, &[base + 1, 1, base + 2]));
                self.push(Op::new(O::SetSlot, &[base + 2, 0, base + 3]));
                for i in 0..4 {
                    self.push(Op::new(O::Drop, &[base + i]));
                }
            }
            4 => {
                // two cycles sharing a node
                for _ in 0..3 {
                    let t = self.tmpl();
                    self.push(Op::new(O::New, &[]).with_tmpl(t));
                }
                self.push(Op::new(O::SetSlot, &[base, 0, base + 1]));
                self.push(Op::new(O::SetSlot, &[base + 1, 0, base]));
                self.push(Op::new(O::SetSlot, &[base + 1, 1, base + 2]));
                self.push(Op::new(O::SetSlot, &[base + 2, 0, base + 1]));
                for i in 0..3 {
                    if self.r.chance(5, 6) {
                        self.push(Op::new(O::Drop, &[base + i]));
                    }
                }
            }
            5 => {
                // cycle closed through an untraced pin
                for _ in 0..2 {
                    let t = self.tmpl();
                    self.push(Op::new(O::New, &[]).with_tmpl(t));
                }
                self.push(Op::new(O::SetSlot, &[base, 0, base + 1]));
                self.push(Op::new(O::SetPin, &[base + 1, base]));
                self.push(Op::new(O::Drop, &[base]));
                self.push(Op::new(O::Drop, &[base + 1]));
            }
            6 => {
                // live root pointing into a cycle whose handles are gone; garbage pointing at a live object
                for _ in 0..3 {
                    let t = self.tmpl();
                    self.push(Op::new(O::New, &[]).with_tmpl(t));
                }
                self.push(Op::new(O::SetSlot, &[base, 0, base + 1]));
                self.push(Op::new(O::SetSlot, &[base + 1, 0, base + 2]));
                self.push(Op::new(O::SetSlot, &[base + 2, 0, base + 1]));
                self.push(Op::new(O::SetSlot, &[base + 2, 1, base]));
                self.push(Op::new(O::Drop, &[base + 1]));
                self.push(Op::new(O::Drop, &[base + 2]));
                if self.r.chance(1, 2) {
                    self.push(Op::new(O::Collect, &[]));
                    self.push(Op::new(O::ClearSlot, &[base, 0]));
                }
            }
            9 | 10 => {
                // one cleaner with several actions: clean some, register more, clean stale ones again, release the owner
                if HAS_CLEAN {
                    let t = self.tmpl();
                    self.push(Op::new(O::New, &[]).with_tmpl(t));
                    let t2 = self.tmpl();
                    self.push(Op::new(O::New, &[]).with_tmpl(t2));
                    let c0 = self.sh.cleanables as i64;
                    let k = 1 + self.r.below(6) as i64;
                    for _ in 0..k {
                        let pool = self.p.act_minis.clone();
                        let s = if self.r.chance(1, 2) { self.script(&pool, 2) } else { vec![] };
                        let cap = match self.r.below(4) { 0 => base + 1, 1 => self.handle_guess(), _ => -1 };
                        self.push(Op::new(O::Register, &[base, cap]).with_script(s));
                    }
                    if self.r.chance(1, 2) {
                        // the neighbour holds the only strong pointer to the owner
                        self.push(Op::new(O::SetSlot, &[base + 1, 0, base]));
                        self.push(Op::new(O::Drop, &[base]));
                        if self.r.chance(1, 2) {
                            // ... and is itself held only by what the actions captured
                            self.push(Op::new(O::Drop, &[base + 1]));
                        }
                    }
                    let ncl = if self.r.chance(1, 2) { k } else { self.r.below(k as u64 + 1) as i64 };
                    for i in 0..ncl {
                        self.push(Op::new(O::Clean, &[c0 + i]));
                    }
                    if self.r.chance(1, 2) {
                        for _ in 0..(1 + self.r.below(3)) {
                            self.push(Op::new(O::Register, &[base, -1]));
                        }
                        for i in 0..k {
                            if self.r.chance(1, 2) {
                                self.push(Op::new(O::Clean, &[c0 + i]));
                            }
                        }
                    }
                    if self.r.chance(2, 3) {
                        self.push(Op::new(O::Drop, &[base + 1]));
                        self.push(Op::new(O::Drop, &[base]));
                    }
                    if self.r.chance(1, 2) {
                        self.push(Op::new(O::Collect, &[]));
                    }
                } else {
                    self.push(Op::new(O::Collect, &[]));
                }
            }
            7 => {
                // buffer a live object, then collect
                let h = self.handle_guess();
                self.push(Op::new(O::Clone, &[h]));
                let c = self.sh.roots.len() as i64 - 1;
                self.push(Op::new(O::Drop, &[c]));
                self.push(Op::new(O::Collect, &[]));
            }
            _ => {
                // weakly linked pair in a cycle (finalizers / destructors upgrade each other)
                if HAS_WEAK {
                    for _ in 0..2 {
                        let t = self.tmpl();
                        self.push(Op::new(O::New, &[]).with_tmpl(t));
                    }
                    let w0 = self.sh.weaks as i64;
                    self.push(Op::new(O::Downgrade, &[base]));
                    self.push(Op::new(O::Downgrade, &[base + 1]));
                    self.push(Op::new(O::StoreWeak, &[base, w0 + 1]));
                    self.push(Op::new(O::StoreWeak, &[base + 1, w0]));
                    self.push(Op::new(O::SetSlot, &[base, 0, base + 1]));
                    self.push(Op::new(O::SetSlot, &[base + 1, 0, base]));
                    self.push(Op::new(O::Drop, &[base]));
                    self.push(Op::new(O::Drop, &[base + 1]));
                } else {
                    self.push(Op::new(O::Collect, &[]));
                }
            }
        }
    }
}

fn generate_threads(seed: u64, index: u64, scale: u64) -> Program {
    let mut r = Rng::new(mix(seed ^ (scale - 1).wrapping_mul(0xA5A5_5A5A_1234_5678), hash_str("threads"), index));
    let mut prog = Program::empty("threads");
    prog.seed = (seed, index);
    prog.config = config_name();
    let n = match r.below(20) {
        0..=9 => 2,
        10..=13 => 3,
        14..=16 => 4,
        17 => 16,
        _ => 5 + r.below(8),
    } as usize;
    for t in 0..n {
        let sub = generate_scaled("graph", mix(seed, 0x7EAD + t as u64, index), index, scale);
        let mut ops = sub.ops;
        let keep = 3 + r.below(14 * scale) as usize;
        ops.truncate(keep);
        // a third of the threads also have a callback panic injected into their own program
        let faults = if r.chance(1, 2) {
            let kind = *r.pick(&[FaultKind::Trace, FaultKind::Trace, FaultKind::Trace, FaultKind::TraceEdge, FaultKind::Finalize, FaultKind::Drop]);
            vec![Fault { kind, k: r.below(5) as u32 }]
        } else {
            vec![]
        };
        let (ops, faults) = if r.chance(1, 6) {
            // this thread first has a collection unwound by a panicking trace while several objects are buffered (a counted
            // one behind an uncounted one), then lets the referrer become garbage; its thread-locals keep the survivors
            use OpCode as O;
            let store = STORE_KINDS.iter().position(|s| s.0 == "vec1").unwrap() as u16;
            let mut pre: Vec<Op> = (0..4).map(|_| Op::new(O::New, &[]).with_tmpl(NodeTmpl { store, fin: vec![], drop: vec![] })).collect();
            pre.push(Op::new(O::SetSlot, &[1, 0, 0]));
            let order: [i64; 4] = if r.chance(1, 2) { [0, 3, 2, 1] } else { [3, 0, 2, 1] };
            for (n, h) in order.iter().enumerate() {
                pre.push(Op::new(O::Clone, &[*h]));
                pre.push(Op::new(O::Drop, &[4 + n as i64]));
            }
            pre.push(Op::new(O::Collect, &[]));
            pre.push(Op::new(O::SetSlot, &[0, 0, 1]));
            pre.push(Op::new(O::Drop, &[1]));
            if r.chance(1, 2) {
                pre.push(Op::new(O::Collect, &[]));
            }
            pre.extend(ops.into_iter().take(6));
            (pre, vec![Fault { kind: FaultKind::Trace, k: 1 }])
        } else {
            (ops, faults)
        };
        prog.threads.push(ThreadPlan { tls_first: r.chance(1, 2), tls_keep: r.below(4) as u32, ops, knobs: sub.knobs, faults });
    }
    let total: usize = prog.threads.iter().map(|t| t.ops.len() + 3).sum();
    let style = r.below(3);
    for k in 0..total {
        let t = match style {
            0 => r.below(n as u64),                                    // uniform
            1 => ((k / (1 + r.below(3) as usize)) % n) as u64,         // short bursts
            _ => if r.chance(3, 4) { (k * n / total.max(1)) as u64 } else { r.below(n as u64) }, // mostly sequential
        };
        prog.schedule.push(t as u8);
    }
    prog
}

/// Depth scale: 1 = the bounds of the quick tier; larger values multiply the caps on operations and objects
/// (and draw from a different stream, so the thorough tier does not merely repeat the quick one).
pub fn generate(profile: &str, seed: u64, index: u64) -> Program {
    generate_scaled(profile, seed, index, 1)
}

pub fn generate_scaled(profile: &str, seed: u64, index: u64, scale: u64) -> Program {
    if profile == "threads" {
        return generate_threads(seed, index, scale);
    }
    let mut p = params(profile);
    if scale > 1 {
        p.ops = (p.ops.0, p.ops.1 * (1 + scale) / 2, p.ops.2 * scale);
        p.max_objects = (p.max_objects as u64 * scale).min(96) as u32;
    }
    let mut r = Rng::new(mix(seed ^ (scale - 1).wrapping_mul(0xA5A5_5A5A_1234_5678), hash_str(profile), index));
    let mut prog = Program::empty(profile);
    prog.seed = (seed, index);
    prog.config = config_name();
    // swarm configuration
    let mut w = p.w;
    if p.swarm {
        for (i, x) in w.iter_mut().enumerate() {
            let creation = matches!(OPS[i].0, OpCode::New | OpCode::Drop);
            if !creation && r.chance(1, 4) {
                *x = 0;
            } else if r.chance(1, 5) {
                *x *= 3;
            }
        }
    }
    if w.iter().all(|x| *x == 0) {
        w[OpCode::New as usize] = 1;
    }
    let stores: Vec<u16> = if p.all_stores && r.chance(1, 2) {
        (0..STORE_KINDS.len() as u16).collect()
    } else {
        let k = 1 + r.below(3);
        (0..k).map(|_| r.below(STORE_KINDS.len() as u64) as u16).collect()
    };
    if HAS_AUTO {
        prog.knobs.auto = r.below(100) < p.auto_rate as u64;
        prog.knobs.buffered = *r.pick(&[0u32, 0, 1, 1, 2, 5]);
        prog.knobs.permille = if r.chance(1, 4) { r.below(1001) as u32 } else { *r.pick(&[100u32, 100, 0, 500, 1000, 10, 333, 290, 125]) };
    }
    let nops = r.size(p.ops.0, p.ops.1, p.ops.2);
    let mut g = Gen { r, p: &p, sh: Shadow { roots: vec![], weaks: 0, cleanables: 0, bag: 0, objects: 0 }, ops: vec![], stores, w };
    if HAS_AUTO && g.r.below(100) < p.exact_threshold_prologue as u64 {
        // Boxes of 48 + 48 + 40 + 64 bytes: the 4th creation finds 136 > 100 bytes and collects, the threshold becomes
        // 200, and then exactly 200 bytes are allocated: the next creation must NOT collect ("exceeds", not "reaches").
        // Optionally on to 336 -> collection -> threshold 400 -> exactly 400 bytes.
        prog.knobs.auto = true;
        prog.knobs.buffered = 0;
        for ly in [24i64, 24, 0, 32] {
            g.push(Op::new(OpCode::NewLeaf, &[ly]));
        }
        if g.r.chance(1, 2) {
            for ly in [40i64, 32] {
                g.push(Op::new(OpCode::NewLeaf, &[ly]));
            }
        }
        if g.r.chance(1, 2) {
            let ly = g.r.below(N_LAYOUTS as u64) as i64;
            g.push(Op::new(OpCode::NewLeaf, &[ly]));
        } else {
            // ... or grow to 336 bytes, collect (threshold 400), shrink back to exactly 200 = threshold / 2 and collect
            // with adjustment_percent >= 0.5: halving would land exactly on the allocated bytes, so it must not happen
            let h = g.sh.roots.len() as i64;
            g.push(Op::new(OpCode::NewLeaf, &[40]));
            g.push(Op::new(OpCode::Collect, &[]));
            g.push(Op::new(OpCode::Drop, &[h]));
            let pm = if g.r.chance(1, 2) { 500 } else { 1000 };
            g.push(Op::new(OpCode::CfgPercent, &[pm]));
            g.push(Op::new(OpCode::Collect, &[]));
        }
    }
    while (g.ops.len() as u64) < nops {
        if g.r.below(100) < p.idiom_rate as u64 && g.sh.objects + 4 <= p.max_objects {
            g.idiom();
        } else {
            g.one();
        }
    }
    if p.quiesce_end && g.r.chance(1, 2) {
        g.push(Op::new(OpCode::Quiesce, &[]));
    }
    // fault plan
    if p.faults > 0 && g.r.below(100) < p.faults as u64 && !p.fault_kinds.is_empty() {
        let n = if g.r.chance(3, 10) { 2 } else { 1 };
        for _ in 0..n {
            let kind = *g.r.pick(&p.fault_kinds);
            let k = match g.r.below(4) {
                0 => 0,
                1 => g.r.below(3),
                2 => g.r.below(8),
                _ => g.r.below(24),
            } as u32;
            prog.faults.push(Fault { kind, k });
        }
    }
    prog.ops = g.ops;
    prog
}
