//! One run: execute a program on a fresh thread against the real crate, with the mirror and all oracles.

use std::panic::{catch_unwind, AssertUnwindSafe};

use crate::alloc;
use crate::compat::*;
use crate::exec::*;
use crate::leaves::*;
use crate::node::*;
use crate::program::*;
use crate::stats::Stats;
use crate::world::*;
use crate::with_weak;
use crate::{map_weak, with_cc};

pub struct RunResult {
    pub fault_counters: [u32; FaultKind::COUNT],
    pub violation: Option<Violation>,
    pub hash: u64,
    pub stats: Stats,
    pub faults_fired: usize,
    pub log: Option<Vec<String>>,
}

impl World {
    fn exec_op(&self, op: &Op) {
        use OpCode as O;
        let a = op.a;
        let any = |_: &Model, _: ObjId| true;
        let live_node = |m: &Model, o: ObjId| World::is_node(m, o) && m.objs[o as usize].status == Status::Live;
        let default_tmpl = NodeTmpl::default();
        let tmpl = op.tmpl.as_ref().unwrap_or(&default_tmpl);
        match op.code {
            O::New => {
                self.create_node(tmpl);
            }
            O::NewLeaf => {
                self.create_leaf(a[0].rem_euclid(N_LAYOUTS as i64) as usize, None);
            }
            O::NewKeyI => {
                self.create_key(false, a[0], false);
            }
            O::NewKeyF => {
                self.create_key(true, a[0], false);
            }
            O::NewDefault => {
                self.create_key(false, 0, true);
            }
            O::NewCyclic => {
                self.create_node_cyclic(tmpl, &op.script);
            }
            O::NewCyclicLeaf => {
                self.create_leaf(a[0].rem_euclid(N_LAYOUTS as i64) as usize, Some(&op.script));
            }
            O::NewBorrowed => {
                if let Some(h) = self.resolve_root(a[0], live_node) {
                    let o = self.m.borrow().root_obj[h].unwrap();
                    let _busy = self.busy(h);
                    let p = self.root_ptr(h);
                    if let AnyCc::N(c) = unsafe { &*p } {
                        let node: &Node = c;
                        let shared = a[1] != 0;
                        let guard_mut = if shared { None } else { Some(node.store.borrow_mut()) };
                        let guard_sh = if shared { Some(node.store.borrow()) } else { None };
                        let guard = (guard_mut, guard_sh);
                        self.m.borrow_mut().store_borrowed = Some(o);
                        self.m.borrow_mut().store_borrow_shared = shared;
                        self.stats.borrow_mut().bump("creation_while_refcell_borrowed");
                        struct Unborrow<'a>(&'a World);
                        impl<'a> Drop for Unborrow<'a> {
                            fn drop(&mut self) {
                                if let Ok(mut m) = self.0.m.try_borrow_mut() {
                                    m.store_borrowed = None;
                                }
                            }
                        }
                        let _u = Unborrow(self);
                        self.create_node(tmpl);
                        drop(guard);
                    }
                } else {
                    self.create_node(tmpl);
                }
            }
            O::NewInConfig => {
                let r = cfg_with_borrowed(|| self.create_node(tmpl));
                if r.is_some() {
                    self.stats.borrow_mut().bump("creation_while_config_borrowed");
                }
            }
            O::Clone => {
                if let Some(h) = self.resolve_root(a[0], any) {
                    if let Some((c, o)) = self.clone_root(h) {
                        self.push_root(c, o);
                    }
                }
            }
            O::Drop => {
                if let Some(h) = self.resolve_root(a[0], any) {
                    self.drop_root(h);
                }
            }
            O::SetSlot => {
                if let Some(h) = self.resolve_root(a[0], |m, o| live_node(m, o) && m.objs[o as usize].nslots > 0) {
                    let _busy = self.busy(h);
                    if let Some(t) = self.resolve_root_incl_busy(a[2]) {
                        if let Some((c, o)) = self.clone_root(t) {
                            self.set_slot_of_root(h, a[1], c, o);
                        }
                    }
                }
            }
            O::MoveSlot => {
                if let Some(h) = self.resolve_root(a[0], |m, o| live_node(m, o) && m.objs[o as usize].nslots > 0) {
                    let _busy = self.busy(h);
                    if let Some(t) = self.resolve_root(a[2], any) {
                        let (cc, o) = self.take_root(t);
                        self.set_slot_of_root(h, a[1], cc, o);
                    }
                }
            }
            O::ClearSlot => {
                if let Some(h) = self.resolve_root(a[0], |m, o| live_node(m, o) && m.objs[o as usize].nslots > 0) {
                    self.clear_slot_of_root(h, a[1]);
                }
            }
            O::SetPin => {
                if let Some(h) = self.resolve_root(a[0], live_node) {
                    let _busy = self.busy(h);
                    if let Some(t) = self.resolve_root_incl_busy(a[1]) {
                        if let Some((c, to)) = self.clone_root(t) {
                            let owner = self.m.borrow().root_obj[h].unwrap();
                            let key = {
                                let mut m = self.m.borrow_mut();
                                let k = KEY_PIN | m.objs[owner as usize].pins_next;
                                m.objs[owner as usize].pins_next += 1;
                                m.edge_insert(owner, k, to);
                                k
                            };
                            let p = self.root_ptr(h);
                            if let AnyCc::N(cc) = unsafe { &*p } {
                                cc.pins.0.borrow_mut().push(Edge::new(owner, key, Some(c)));
                            }
                            self.stats.borrow_mut().bump("untraced_edge_created");
                        }
                    }
                }
            }
            O::ClearPin => {
                if let Some(h) = self.resolve_root(a[0], live_node) {
                    let _busy = self.busy(h);
                    let p = self.root_ptr(h);
                    if let AnyCc::N(cc) = unsafe { &*p } {
                        let e = {
                            let mut pins = cc.pins.0.borrow_mut();
                            if pins.is_empty() {
                                None
                            } else {
                                let i = a[1].rem_euclid(pins.len() as i64) as usize;
                                Some(pins.remove(i))
                            }
                        };
                        drop(e); // Edge::drop reports to the mirror
                        self.sync();
                    }
                }
            }
            O::MarkAlive => {
                if let Some(h) = self.resolve_root(a[0], any) {
                    self.mark_alive_root(h);
                }
            }
            O::MarkAliveSlot => {
                if let Some(h) = self.resolve_root(a[0], |m, o| live_node(m, o) && m.objs[o as usize].nslots > 0) {
                    let owner = self.m.borrow().root_obj[h].unwrap();
                    let p = self.root_ptr(h);
                    if let AnyCc::N(cc) = unsafe { &*p } {
                        let st = cc.store.borrow();
                        let mut edges = Vec::new();
                        st.walk(&mut edges);
                        let s = a[1].rem_euclid(edges.len() as i64) as usize;
                        if let Some(child) = edges[s].get() {
                            let t = *self.m.borrow().objs[owner as usize].edges.get(&(KEY_SLOT | s as u32)).expect("mirror edge");
                            self.lib(LibCall::Other, || with_cc!(child, c => c.mark_alive()));
                            self.m.borrow_mut().buf_model.remove(&t);
                        }
                    }
                }
            }
            O::Downgrade => {
                if let Some(h) = self.resolve_root(a[0], any) {
                    self.downgrade_root(h);
                }
            }
            O::WeakNew => {
                if HAS_WEAK {
                    self.push_weak(weak_new_for(a[0].rem_euclid(3) as usize), None);
                }
            }
            O::WeakClone => {
                if let Some(wi) = self.resolve_weak(a[0]) {
                    let t = self.m.borrow().weak_obj[wi].unwrap();
                    let full = t.map_or(false, |o| World::weak_count_model(&self.m.borrow(), o) >= MAX_WEAK);
                    if !full {
                        let p = {
                            let tb = self.t.borrow();
                            &**tb.weaks[wi].as_ref().unwrap() as *const AnyWeak
                        };
                        let w = self.lib(LibCall::Clone, || map_weak!(unsafe { &*p }, x => x.clone()));
                        self.push_weak(w, t);
                    }
                }
            }
            O::WeakDrop => {
                if let Some(wi) = self.resolve_weak(a[0]) {
                    let w = self.t.borrow_mut().weaks[wi].take().unwrap();
                    self.m.borrow_mut().weak_obj[wi] = None;
                    self.lib(LibCall::Other, move || drop(w));
                    self.sync();
                }
            }
            O::Upgrade | O::UpgradeDrop => {
                if let Some(wi) = self.resolve_weak(a[0]) {
                    let (p, t) = {
                        let tb = self.t.borrow();
                        (&**tb.weaks[wi].as_ref().unwrap() as *const AnyWeak, self.m.borrow().weak_obj[wi].unwrap())
                    };
                    self.upgrade_weak(p, t, op.code == O::Upgrade);
                }
            }
            O::StoreWeak => {
                if let (Some(h), Some(wi)) = (self.resolve_root(a[0], live_node), self.resolve_weak(a[1])) {
                    let owner = self.m.borrow().root_obj[h].unwrap();
                    let t = self.m.borrow().weak_obj[wi].unwrap();
                    let full = t.map_or(false, |o| World::weak_count_model(&self.m.borrow(), o) >= MAX_WEAK);
                    if !full {
                        let p = {
                            let tb = self.t.borrow();
                            &**tb.weaks[wi].as_ref().unwrap() as *const AnyWeak
                        };
                        let w = self.lib(LibCall::Clone, || map_weak!(unsafe { &*p }, x => x.clone()));
                        let np = self.root_ptr(h);
                        if let AnyCc::N(cc) = unsafe { &*np } {
                            cc.weaks.borrow_mut().push(w);
                            self.m.borrow_mut().objs[owner as usize].stored_weaks.push(t);
                        }
                    }
                }
            }
            O::TryUnwrap => {
                if let Some(h) = self.resolve_root(a[0], any) {
                    self.try_unwrap_root(h);
                }
            }
            O::DropUnwrapped => {
                if let Some(b) = self.resolve_bag(a[0]) {
                    self.drop_unwrapped(b);
                }
            }
            O::FinAgain => {
                if let Some(h) = self.resolve_root(a[0], any) {
                    self.fin_again_root(h);
                }
            }
            O::Collect => self.collect(),
            O::Quiesce => self.quiesce(),
            O::CfgAuto | O::CfgBuffered | O::CfgPercent => self.cfg_op(op.code, a[0]),
            O::CfgReplace => self.cfg_replace(a[0]),
            O::Register => {
                if let Some(h) = self.resolve_root(a[0], live_node) {
                    let cap = if a[1] < 0 { None } else { self.resolve_root(a[1], any) };
                    self.register(h, cap, &op.script);
                }
            }
            O::Clean => {
                if let Some(c) = self.resolve_cleanable(a[0]) {
                    self.clean(c);
                }
            }
            O::DropCleanable => {
                if let Some(c) = self.resolve_cleanable(a[0]) {
                    self.drop_cleanable(c);
                }
            }
            O::BulkClone => {
                if let Some(h) = self.resolve_root(a[0], any) {
                    self.bulk_clone(h, a[1].clamp(0, 20000) as u32);
                }
            }
            O::BulkUpgrade => {
                if let Some(wi) = self.resolve_weak(a[0]) {
                    self.bulk_upgrade(wi, a[1].clamp(0, 20000) as u32);
                }
            }
            O::BulkWeakClone => {
                if let Some(wi) = self.resolve_weak(a[0]) {
                    self.bulk_weak_clone(wi, a[1].clamp(0, 40000) as u32);
                }
            }
            O::BulkDowngrade => {
                if let Some(h) = self.resolve_root(a[0], any) {
                    self.bulk_downgrade(h, a[1].clamp(0, 40000) as u32);
                }
            }
            O::BulkDrop => {
                if let Some(h) = self.resolve_root(a[0], any) {
                    self.bulk_drop(h, a[1].clamp(0, 20000) as u32);
                }
            }
            O::BulkWeakDrop => {
                if let Some(wi) = self.resolve_weak(a[0]) {
                    self.bulk_weak_drop(wi, a[1].clamp(0, 40000) as u32);
                }
            }
            O::BulkRegister => {
                if let Some(h) = self.resolve_root(a[0], live_node) {
                    self.bulk_register(h, a[1].clamp(0, 40000) as u32);
                }
            }
            O::BulkClean => {
                if let Some(h) = self.resolve_root(a[0], live_node) {
                    self.bulk_clean(h, a[1].clamp(0, 40000) as u32);
                }
            }
            O::BulkEdges => {
                if let (Some(h), Some(t)) = (self.resolve_root(a[0], live_node), self.resolve_root_incl_busy(a[1])) {
                    self.bulk_edges(h, t, a[2].clamp(0, 20000) as u32);
                }
            }
            O::BulkEdgesDrop => {
                if let Some(h) = self.resolve_root(a[0], live_node) {
                    self.bulk_edges_drop(h, a[1].clamp(0, 20000) as u32);
                }
            }
            O::DebugChain => self.debug_chain(a[0].max(1) as u32),
            O::CmpChain => self.cmp_chain(a[0], a[1], a[2]),
            O::Compare => {
                if let (Some(i), Some(j)) = (self.resolve_root(a[0], any), self.resolve_root(a[1], any)) {
                    self.compare(i, j);
                }
            }
            O::Observe => {}
        }
    }

    fn resolve_root_incl_busy(&self, n: i64) -> Option<usize> {
        let m = self.m.borrow();
        if n >= 0 && (n as usize) < m.root_obj.len() && m.root_obj[n as usize].is_some() {
            return Some(n as usize);
        }
        let live: Vec<usize> = (0..m.root_obj.len()).filter(|i| m.root_obj[*i].is_some()).collect();
        if live.is_empty() {
            None
        } else {
            Some(live[(n.rem_euclid(live.len() as i64)) as usize])
        }
    }

    /// Executes one top-level op with unwinding recovery and the after-op oracles.
    pub fn step(&self, op: &Op) {
        {
            let mut m = self.m.borrow_mut();
            m.op_index += 1;
            m.fired_this_op = false;
            m.unwound_this_op = false;
            m.collection_this_op = false;
            m.batch_open = false;
            m.touched_this_call.clear();
        }
        self.stats.borrow_mut().ops += 1;
        self.stats.borrow_mut().steps += 1;
        *self.stats.borrow_mut().op_kinds.entry(op.code.name()).or_insert(0) += 1;
        self.ev(1, op.code as u64, (op.a[0] as u64) ^ ((op.a[1] as u64) << 20) ^ ((op.a[2] as u64) << 40));
        let r = catch_unwind(AssertUnwindSafe(|| self.exec_op(op)));
        let mut unwound = false;
        if let Err(p) = r {
            unwound = true;
            {
                let mut m = self.m.borrow_mut();
                m.frames.clear();
                m.inflight.clear();
                m.store_borrowed = None;
                m.clean_stack.clear();
                m.expect_side_for = None;
                m.expected_unboxed = None;
                m.pending_leaf = None;
                m.unwound_this_op = true;
                for b in m.root_busy.iter_mut() {
                    *b = false;
                }
            }
            self.creation_unwound();
            self.ev(15, 0, 0);
            if p.is::<HarnessError>() {
                harness_error(p.downcast_ref::<HarnessError>().unwrap().0.clone());
            }
            let fired = self.m.borrow().fired_this_op;
            if let Some(inj) = p.downcast_ref::<Injected>() {
                let ok = fired && self.m.borrow().faults_fired.last().map_or(false, |f| f.0.kind == inj.0 && f.0.k == inj.1);
                if !ok {
                    self.fail("O-CONTAIN.payload", "an injected panic surfaced that was not raised in this operation".to_string());
                }
            } else if !self.dead.get() {
                let msg = panic_message(&p);
                self.fail(
                    if fired { "O-CONTAIN.other-panic" } else { "O-CONTAIN.panic" },
                    format!("`{}` panicked with a panic that is neither injected nor documented: {}", op.code.name(), msg),
                );
            }
        } else if self.m.borrow().fired_this_op && !self.dead.get() {
            self.fail("O-CONTAIN.swallowed", format!("a callback panicked during `{}` but the panic did not reach the caller", op.code.name()));
        }
        self.after_op(unwound);
        if unwound && !self.dead.get() {
            // the collector must be usable again: a later collection can start
            self.stats.borrow_mut().bump("op_unwound_by_fault");
        }
    }

    /// Drops everything the program holds, quiesces, then checks what is left.
    pub fn epilogue(&self) {
        let wrap = |f: &dyn Fn()| {
            if self.dead.get() {
                return;
            }
            self.m.borrow_mut().touched_this_call.clear();
            let r = catch_unwind(AssertUnwindSafe(f));
            let unwound = r.is_err();
            if let Err(p) = r {
                let mut m = self.m.borrow_mut();
                m.frames.clear();
                m.inflight.clear();
                m.expected_unboxed = None;
                for b in m.root_busy.iter_mut() {
                    *b = false;
                }
                let fired = m.fired_this_op;
                drop(m);
                self.creation_unwound();
                if !p.is::<Injected>() || !fired {
                    self.fail("O-CONTAIN.panic", format!("the epilogue panicked: {}", panic_message(&p)));
                }
            }
            {
                let mut m = self.m.borrow_mut();
                m.fired_this_op = false;
            }
            self.after_op(unwound);
        };
        // a collection first: after faults this is the "a later collection can start" check
        wrap(&|| {
            self.m.borrow_mut().op_index += 1;
            self.m.borrow_mut().collection_this_op = false;
            self.collect()
        });
        let nroots = self.m.borrow().root_obj.len();
        for i in 0..nroots {
            if self.m.borrow().root_obj[i].is_some() {
                wrap(&|| {
                    let mut m = self.m.borrow_mut();
                    m.op_index += 1;
                    m.collection_this_op = false;
                    m.batch_open = false;
                    // bulk handles of that object go first so that the table handle is the last one
                    let o = m.root_obj[i].unwrap();
                    drop(m);
                    let k = self.m.borrow().objs[o as usize].bulk_strong;
                    if k > 0 {
                        self.bulk_drop(i, k);
                    }
                    if self.m.borrow().root_obj[i].is_some() {
                        self.drop_root(i);
                    }
                });
            }
        }
        // roots created by callbacks during the loop above
        loop {
            let next = {
                let m = self.m.borrow();
                (0..m.root_obj.len()).find(|i| m.root_obj[*i].is_some())
            };
            let Some(i) = next else { break };
            if self.dead.get() {
                return;
            }
            wrap(&|| {
                let mut m = self.m.borrow_mut();
                m.op_index += 1;
                m.collection_this_op = false;
                m.batch_open = false;
                let o = m.root_obj[i].unwrap();
                drop(m);
                let k = self.m.borrow().objs[o as usize].bulk_strong;
                if k > 0 {
                    self.bulk_drop(i, k);
                }
                if self.m.borrow().root_obj[i].is_some() {
                    self.drop_root(i);
                }
            });
            if self.m.borrow().root_obj.len() > 4096 {
                self.fail("O-TERM.epilogue", "releasing the program's handles keeps creating new ones".to_string());
                return;
            }
        }
        let nbag = self.m.borrow().bag_obj.len();
        for b in 0..nbag {
            if self.m.borrow().bag_obj[b].is_some() {
                wrap(&|| {
                    self.m.borrow_mut().op_index += 1;
                    self.m.borrow_mut().collection_this_op = false;
                    self.drop_unwrapped(b)
                });
            }
        }
        // handles created by destructors of the moved-out values
        loop {
            let next = {
                let m = self.m.borrow();
                (0..m.root_obj.len()).find(|i| m.root_obj[*i].is_some())
            };
            let Some(i) = next else { break };
            if self.dead.get() {
                return;
            }
            wrap(&|| {
                self.m.borrow_mut().op_index += 1;
                self.m.borrow_mut().collection_this_op = false;
                self.drop_root(i)
            });
        }
        wrap(&|| {
            // cleanables kept in bulk: dropping them neither runs nor cancels anything
            let all = std::mem::take(&mut self.t.borrow_mut().bulk_cleanables);
            for (map, v) in all {
                self.m.borrow_mut().objs[map as usize].bulk_cleanables = 0;
                self.lib(LibCall::Other, move || drop(v));
            }
            self.sync();
        });
        let ncl = self.m.borrow().cl_action.len();
        for c in 0..ncl {
            if self.m.borrow().cl_action[c].is_some() {
                wrap(&|| self.drop_cleanable(c));
            }
        }
        wrap(&|| {
            self.m.borrow_mut().op_index += 1;
            self.m.borrow_mut().collection_this_op = false;
            self.quiesce()
        });
        // quiescence may have parked new handles (resurrection): one more round
        for _ in 0..8 {
            let next = {
                let m = self.m.borrow();
                (0..m.root_obj.len()).find(|i| m.root_obj[*i].is_some())
            };
            if next.is_none() || self.dead.get() {
                break;
            }
            while let Some(i) = {
                let m = self.m.borrow();
                (0..m.root_obj.len()).find(|i| m.root_obj[*i].is_some())
            } {
                if self.dead.get() {
                    return;
                }
                wrap(&|| {
                    self.m.borrow_mut().op_index += 1;
                    self.m.borrow_mut().collection_this_op = false;
                    self.drop_root(i)
                });
            }
            wrap(&|| {
                self.m.borrow_mut().op_index += 1;
                self.m.borrow_mut().collection_this_op = false;
                self.quiesce()
            });
        }
        // finally the weak pointers: side records must go with the last of them
        let nw = self.m.borrow().weak_obj.len();
        for wi in 0..nw {
            if self.m.borrow().weak_obj[wi].is_some() {
                wrap(&|| {
                    let w = self.t.borrow_mut().weaks[wi].take().unwrap();
                    let t = self.m.borrow_mut().weak_obj[wi].take().unwrap();
                    if let Some(o) = t {
                        let k = self.m.borrow().objs[o as usize].bulk_weak;
                        if k > 0 {
                            self.m.borrow_mut().objs[o as usize].bulk_weak = 0;
                            let v = self.t.borrow_mut().bulk_weak.remove(&o);
                            drop(v);
                        }
                    }
                    let _ = with_weak!(&*w, x => x.weak_count());
                    drop(w);
                    self.sync();
                });
            }
        }
    }
}

/// Executes `prog` on the current thread (callers give each run a fresh thread).
pub fn run_program(prog: &Program, check_prop: &'static str, verbose: bool) -> RunResult {
    let exact = prog.profile == "buffer";
    let world = Box::new(World::new(prog.knobs, prog.faults.clone(), check_prop, exact));
    if verbose {
        *world.trace_log.borrow_mut() = Some(Vec::new());
    }
    set_world(&*world as *const World);
    rust_cc::verif::set_alloc_observer(Some(crate::callbacks::observer));
    let _ = rust_cc::verif::take_probes();
    alloc::set_tag(0);
    world.apply_knobs(&prog.knobs);
    world.m.borrow_mut().prog_ops = prog.ops.len() as u32;
    world.stats.borrow_mut().runs = 1;
    for op in &prog.ops {
        if world.dead.get() {
            break;
        }
        world.step(op);
    }
    if !world.dead.get() {
        world.epilogue();
    }
    if !world.dead.get() {
        crate::nontrivial::classify(&world);
    }
    let probes = rust_cc::verif::take_probes();
    {
        let mut st = world.stats.borrow_mut();
        st.probes = probes.to_vec();
    }
    let res = RunResult {
        fault_counters: world.m.borrow().fault_counters,
        violation: world.violation.borrow().clone(),
        hash: world.hash.get(),
        stats: world.stats.borrow().clone(),
        faults_fired: world.m.borrow().faults_fired.len(),
        log: world.trace_log.borrow_mut().take(),
    };
    set_world(std::ptr::null());
    // Whatever is still alive (pinned garbage, leaks after faults) stays allocated; callbacks are inert now.
    if world.dead.get() {
        world.leak_tables(); // after a violation the heap cannot be trusted: touch nothing
    }
    drop(world);
    res
}
