#!/usr/bin/env python3
"""Refreshes the parts of MANIFEST.json that are derived from the plan table of ./check (profiles, configurations)
and from /verif/seeded (number of seeded changes). Everything else in MANIFEST.json is left as it is."""
import json, os, re, glob, importlib.machinery, importlib.util
ROOT = os.path.dirname(os.path.dirname(os.path.abspath(__file__)))
ld = importlib.machinery.SourceFileLoader("vcheck", os.path.join(ROOT, "check"))
spec = importlib.util.spec_from_loader("vcheck", ld); ck = importlib.util.module_from_spec(spec); ld.exec_module(ck)
m = json.load(open(os.path.join(ROOT, "MANIFEST.json")))
nseeded = len(glob.glob(os.path.join(ROOT, "seeded", "*", "patch.diff")))
for c in m["checks"]:
    p = ck.P[c["property_id"]]
    profs = ", ".join(x[0] for x in p["profiles"])
    extra = [x for x in p["ct"] if x not in p["cq"]]
    t = c["level_claimed"]["text"]
    t = re.sub(r"Profiles: [^;]*;", "Profiles: %s;" % profs, t)
    t = re.sub(r"configurations \(quick\): [^;]*;", "configurations (quick): %s;" % ", ".join(p["cq"]), t)
    t = re.sub(r"and configurations [a-z, -]*\.$", ("and configurations %s." % ", ".join(extra)) if extra else "and configurations (none added).", t)
    c["level_claimed"]["text"] = t
    c["level_claimed"]["category"] = p["level"]
    c["level_note"] = re.sub(r"Sensitivity: /verif/seeded \([^)]*\)", "Sensitivity: /verif/seeded (%d independently written breaking changes, all caught by the quick check of their property; DESIGN.md 12.5-12.12, seeded/RESULTS.txt)" % nseeded, c["level_note"])
json.dump(m, open(os.path.join(ROOT, "MANIFEST.json"), "w"), indent=1)
print("refreshed", len(m["checks"]), "checks;", nseeded, "seeded changes")
