#!/bin/bash
# Runs every registered check in the thorough tier (long: for background sweeps). Usage: tools/thorough_all.sh [seed]
cd "$(dirname "$0")/.."
export VERIF_SEED=${1:-1}
for id in $(python3 -c "import json;print(' '.join(c['property_id'] for c in json.load(open('MANIFEST.json'))['checks']))"); do
  ./check $id --tier thorough 2>&1 | tail -4
done
