#!/usr/bin/env python3
"""Applies a patch to /repo, runs the given checks (quick tier), restores /repo. For sensitivity experiments only.
usage: try_mutant.py <patch.diff> [ID ...]        (default: every registered check)
"""
import json, subprocess, sys, os, time
patch = os.path.abspath(sys.argv[1])
ids = sys.argv[2:] or [c["property_id"] for c in json.load(open("/verif/MANIFEST.json"))["checks"]]
st = subprocess.run(["git", "-C", "/repo", "status", "--porcelain", "--untracked-files=no"], stdout=subprocess.PIPE, text=True).stdout.strip()
if st:
    sys.exit("refusing: /repo has local modifications:\n" + st)
r = subprocess.run(["git", "-C", "/repo", "apply", patch])
if r.returncode != 0:
    sys.exit("patch does not apply")
res = {}
try:
    for i in ids:
        t = time.time()
        p = subprocess.run(["./check", i, "--tier", "quick"], cwd="/verif", stdout=subprocess.PIPE, stderr=subprocess.STDOUT, text=True)
        lines = p.stdout.strip().splitlines()
        viol = [l for l in lines if l.startswith("VIOLATION")]
        detail = [l for l in lines if l.startswith("  ")]
        res[i] = (p.returncode, len(viol))
        print("%s exit=%d violations=%d %.0fs %s" % (i, p.returncode, len(viol), time.time() - t, (viol[0] + " |" + (detail[0] if detail else "")) [:260] if viol else (lines[-1][:200] if p.returncode else "")), flush=True)
finally:
    subprocess.run(["git", "-C", "/repo", "checkout", "--", "."])
    # evidence files were rewritten by runs against a modified tree: restore them from git
    subprocess.run(["git", "-C", "/verif", "checkout", "--", "evidence"], stderr=subprocess.DEVNULL)
    subprocess.run(["rm", "-rf", "/verif/replays"])
caught = [i for i, (rc, n) in res.items() if rc == 1]
print("CAUGHT-BY:", " ".join(caught) if caught else "(none)")
